package sim

//simrt:noinstrument  (runs outside the bubble: sets the scheduler up and collects the result)

import (
	"bufio"
	"encoding/json"
	"fmt"
	"math/rand"
	"os"
	"runtime"
	"strings"
	"testing"
	"testing/synctest"
	"time"

	"github.com/google/uuid"
	"verif.local/simrt"
)

// World is one simulated workload+environment. Run executes inside the bubble as task 0.
type World interface {
	Name() string
	Run(c *Ctx)
}

var worlds = map[string]func() World{}

func RegisterWorld(name string, f func() World) { worlds[name] = f }

type detReader struct{ r *rand.Rand }

func (d detReader) Read(p []byte) (int, error) { return d.r.Read(p) }

// ReplayFile is the on-disk form of a (minimised) failing run.
type ReplayFile struct {
	Version   int               `json:"version"`
	Tier      string            `json:"tier"`
	Property  string            `json:"property"`
	World     string            `json:"world"`
	Violation *Violation        `json:"violation"`
	Seed      uint64            `json:"seed"`
	Run       uint64            `json:"run_index"`
	Override  map[string]string `json:"override"`
	StopAtMs  int64             `json:"stop_at_ms"`
	Streams   simrt.StreamsJSON `json:"streams"`
	Config    map[string]any    `json:"config"`
	Schedule  []string          `json:"schedule_summary"`
	EventTail []string          `json:"event_tail"`
	LogDigest string            `json:"log_digest"`
	TreeHash  string            `json:"tree_hash"`
	Toolchain string            `json:"toolchain"`
	Note      string            `json:"note,omitempty"`
}

// RunOne executes one seed. World "mgr" (C17) is a twin run: the same seed is executed twice,
// through the manager and directly on the engines, and the two event logs must be identical.
func RunOne(t *testing.T, job *Job, run uint64, rf *ReplayFile) RunResult {
	if (job.World != "mgr" && !(rf != nil && rf.World == "mgr")) || os.Getenv("VERIF_MGR_SINGLE") != "" {
		res, _ := runOnce(t, job, run, rf)
		return res
	}
	ja, jb := *job, *job
	ja.Override = map[string]string{"mgr_mode": "manager"}
	jb.Override = map[string]string{"mgr_mode": "engine"}
	if v := os.Getenv("VERIF_MGR_SAME"); v != "" { // debugging aid: choose the modes of the twin, e.g. "engine,engine"
		ms := strings.Split(v, ",")
		ja.Override["mgr_mode"], jb.Override["mgr_mode"] = ms[0], ms[len(ms)-1]
	}
	for k, v := range job.Override {
		if k != "mgr_mode" {
			ja.Override[k], jb.Override[k] = v, v
		}
	}
	ja.DumpLog, jb.DumpLog = true, true
	ra, la := runOnce(t, &ja, run, rf)
	rb, lb := runOnce(t, &jb, run, rf)
	ra.Judged["C17.twin_run"]++
	const depDL = "dependency_deadlock_syncsaga_recursive_rlock"
	if ra.Inconclusive[depDL]+rb.Inconclusive[depDL] > 0 {
		ra.Inconclusive[depDL] = 1 // one of the twins froze in the dependency: nothing to compare
	} else if len(ra.Violations) == 0 && len(ra.Infra) == 0 && len(rb.Infra) == 0 {
		diff := ""
		for i := 0; i < len(la) || i < len(lb); i++ {
			var a, b string
			if i < len(la) {
				a = la[i]
			}
			if i < len(lb) {
				b = lb[i]
			}
			if a != b {
				diff = fmt.Sprintf("first difference at log line %d: via manager %q, on the engine %q", i, a, b)
				break
			}
		}
		if diff != "" {
			ra.Violations = append(ra.Violations, Violation{Property: "C17", Oracle: "C17.manager_differs_from_engine", Facts: map[string]any{}, Message: "the same seeded operation sequence gives different results/events through Manager.X(tableID, ...) and on the engine itself: " + diff, AtMs: ra.SimMs})
			ra.Streams = rb.Streams
		}
	}
	ra.Infra = append(ra.Infra, rb.Infra...)
	ra.WallMs += rb.WallMs
	if !job.DumpLog {
		if len(ra.Violations) == 0 && !job.KeepAll {
			ra.EventTail = nil
			ra.Streams = nil
			ra.Schedule = nil
		} else if len(ra.EventTail) > tailLen {
			ra.EventTail = ra.EventTail[len(ra.EventTail)-tailLen:]
		}
	}
	return ra
}

func runOnce(t *testing.T, job *Job, run uint64, rf *ReplayFile) (res RunResult, fullLog []string) {
	defer func() { fullLog = res.fullLog; res.fullLog = nil }()
	start := time.Now()
	res = RunResult{World: job.World, Seed: job.Seed, Run: run, Config: map[string]any{}, Stats: map[string]int64{}, Faults: map[string]int64{}, Judged: map[string]int64{}, Probes: map[string]int64{}, Inconclusive: map[string]int64{}}
	wf, ok := worlds[job.World]
	if !ok {
		res.Infra = append(res.Infra, "unknown world "+job.World)
		return
	}
	var st *simrt.Streams
	if rf != nil {
		st = simrt.NewReplayStreams(rf.Streams)
	} else if job.Property == "C13" && job.World == "table" && (run/48)%2 == 0 {
		// fault enumeration: 48 consecutive runs replay the same seeded table (same streams) and
		// differ only in the ordinal of the backend call that fails (0 = none)
		st = simrt.NewStreams(job.Seed, run/48*48)
		if job.Override == nil {
			job.Override = map[string]string{}
		}
		ov := map[string]string{}
		for k, v := range job.Override {
			ov[k] = v
		}
		ov["fail_ordinal"] = fmt.Sprint(run % 48)
		jc := *job
		jc.Override = ov
		job = &jc
	} else {
		st = simrt.NewStreams(job.Seed, run)
	}
	res.Override = job.Override
	c := &Ctx{Job: job, St: st, Res: &res, Cfg: res.Config}
	var sch *simrt.Sched
	var swTail []string
	finished := false
	func() {
		defer func() {
			if r := recover(); r != nil {
				msg := fmt.Sprint(r)
				switch {
				case strings.Contains(msg, "deadlock: main bubble goroutine has exited"):
				case strings.Contains(msg, "deadlock: all goroutines in bubble are blocked") && sch != nil && sch.Stopping():
					// a monitor stopped the run while the root task was waiting for tasks that can no longer finish
				case strings.Contains(msg, "deadlock: all goroutines in bubble are blocked") && sch != nil && strings.Contains(strings.Join(sch.LockWaiters(), " "), "ReadyGroup.defValidate"):
					// known defect of the dependency syncsaga (KF-C11-5 / KF-C08-3, judged in the table world):
					// recursive read lock with a writer queued in between. Everything that touches the engine is
					// blocked, including the harness: the run says nothing about the property under test.
					res.Inconclusive["dependency_deadlock_syncsaga_recursive_rlock"]++
				default:
					res.Infra = append(res.Infra, "bubble panic: "+msg)
					if os.Getenv("VERIF_DEBUG_STACKS") != "" {
						buf := make([]byte, 1<<20)
						n := runtime.Stack(buf, true)
						fmt.Fprintln(os.Stderr, string(buf[:n]))
					}
				}
			}
		}()
		synctest.Test(t, func(t *testing.T) {
			// scheduler configuration (drawn outside the baton, before any task exists)
			strat := c.CfgPick("strategy", []string{"fifo", "sticky", "pct", "random"}, 25, 40, 30, 5)
			var strategy simrt.Strategy
			sr := st.Get("schedrng")
			switch strat {
			case "fifo":
				strategy = simrt.FIFO{}
			case "sticky":
				p := []int{3, 10, 30, 100, 300}[c.CfgInt("sticky_p", 0, 4)]
				strategy = &simrt.Sticky{R: sr, P: p}
			case "pct":
				d := c.CfgInt("pct_d", 1, 4)
				hz := []int{200, 2000, 20000}[c.CfgInt("pct_h", 0, 2)]
				strategy = &simrt.PCT{R: sr, D: d, Horizon: hz}
			default:
				strategy = &simrt.Random{R: sr}
			}
			mw := []int{40, 25, 15, 8, 6, 6}
			switch {
			case job.World == "actor":
				mw = []int{25, 30, 5, 0, 0, 40} // statement-level points inside the actor package matter here
			case job.World == "ogm":
				mw = []int{30, 30, 0, 40, 0, 0}
			case job.World == "seat":
				mw = []int{40, 20, 0, 0, 40, 0}
			}
			mask := c.CfgPick("mask", []string{"sync", "all", "pkg:pokertable", "pkg:syncsaga,open_game_manager", "pkg:seat_manager", "pkg:pokertable,actor"}, mw...)
			sch = simrt.New(strategy, st.Get("sched"), st.Get("maporder"))
			sch.MapMode = c.CfgInt("mapmode", 0, 2)
			// how a released mutex is passed on: to its waiters in arrival order (sync.Mutex in starvation
			// mode, the rule behind holders that sleep) or to whoever runs first (normal mode)
			sch.LockHandoff = c.CfgBool("lock_handoff", 1, 2)
			sch.Mask = BuildMask(mask)
			sch.Sites = siteTable
			c.Sch = sch
			c.epoch = time.Now()
			uuid.SetRand(detReader{rand.New(rand.NewSource(int64(job.Seed*1000003 + run)))})
			sch.OnSwitch = func(from, to *simrt.Task, site int) {
				fn := "-"
				if from != nil {
					fn = from.Name
				}
				swTail = append(swTail, fmt.Sprintf("%s -> %s at %s", fn, to.Name, siteDesc(site)))
				if len(swTail) > 80 {
					swTail = append([]string(nil), swTail[40:]...)
				}
			}
			w := wf()
			sch.Run(func() {
				// epoch jitter: deck seeds (rand.Seed(time.Now())) differ per run
				simrt.Sleep(0, time.Duration(1+st.Get("config").Draw(1_000_000))*time.Microsecond)
				c.epoch = time.Now()
				w.Run(c)
				c.lastMs = c.NowMs()
			})
			finished = true
		})
	}()
	if sch != nil {
		res.SimMs = c.lastMs
		res.Stats["steps"] = sch.Steps
		res.Stats["switches"] = sch.Switches
		res.Stats["decisions"] = sch.Decisions
		res.Stats["lockwaits"] = sch.LockWaits
		res.Stats["tasks"] = sch.Spawned
		res.Stats["switch_pairs"] = int64(sch.SwitchPairs())
		res.Stats["maporder_draws"] = int64(st.Get("maporder").Count())
		res.Stats["sched_draws"] = int64(st.Get("sched").Count())
		if sch.BudgetHit {
			res.Inconclusive["step_budget"]++
		}
		res.Fingerprint = fmt.Sprintf("%016x", sch.Fingerprint())
		res.LogDigest = fmt.Sprintf("%016x-%d", c.logHash, c.logN)
		res.Panics = sch.Panics()
		res.Infra = append(res.Infra, sch.ClockSkew...)
		if len(res.Violations) > 0 || job.KeepAll || job.DumpLog {
			res.Streams = st.Export()
			tail := c.tail
			if len(tail) > tailLen {
				tail = tail[len(tail)-tailLen:]
			}
			res.EventTail = tail
			if len(swTail) > 40 {
				swTail = swTail[len(swTail)-40:]
			}
			res.Schedule = swTail
		}
		if job.DumpLog {
			res.EventTail = c.full
			res.fullLog = c.full
		}
	}
	_ = finished
	res.WallMs = time.Since(start).Milliseconds()
	return
}

// WorkerMain is called from TestWorker.
func WorkerMain(t *testing.T) {
	jp := os.Getenv("VERIF_JOB")
	if jp == "" {
		t.Skip("VERIF_JOB not set")
	}
	b, err := os.ReadFile(jp)
	if err != nil {
		fmt.Fprintln(os.Stderr, "job:", err)
		os.Exit(2)
	}
	var job Job
	if err := json.Unmarshal(b, &job); err != nil {
		fmt.Fprintln(os.Stderr, "job:", err)
		os.Exit(2)
	}
	if err := LoadSites(job.SiteFiles); err != nil {
		fmt.Fprintln(os.Stderr, "sites:", err)
		os.Exit(2)
	}
	out, err := os.Create(job.Out)
	if err != nil {
		fmt.Fprintln(os.Stderr, "out:", err)
		os.Exit(2)
	}
	defer out.Close()
	bw := bufio.NewWriter(out)
	defer bw.Flush()
	// silence the engine's debug printing
	if os.Getenv("VERIF_ENGINE_STDOUT") == "" {
		devnull, _ := os.OpenFile("/dev/null", os.O_WRONLY, 0)
		os.Stdout = devnull
	} else {
		os.Stdout = os.Stderr // triage: the engine's own prints, interleaved with VERIF_TRACE lines
	}
	enc := json.NewEncoder(bw)
	if job.Replay != "" {
		rb, err := os.ReadFile(job.Replay)
		if err != nil {
			fmt.Fprintln(os.Stderr, "replay:", err)
			os.Exit(2)
		}
		var rf ReplayFile
		if err := json.Unmarshal(rb, &rf); err != nil {
			fmt.Fprintln(os.Stderr, "replay:", err)
			os.Exit(2)
		}
		job.World = rf.World
		job.Seed = rf.Seed
		if rf.Tier != "" {
			job.Tier = rf.Tier // the swarm configuration depends on the tier
		}
		if job.Override == nil {
			job.Override = rf.Override
		}
		if job.StopAtMs == 0 {
			job.StopAtMs = rf.StopAtMs
		}
		res := RunOne(t, &job, rf.Run, &rf)
		enc.Encode(res)
		return
	}
	for run := job.From; run < job.To; run++ {
		res := RunOne(t, &job, run, nil)
		enc.Encode(res)
		if (run-job.From)%16 == 15 {
			bw.Flush()
			runtime.GC()
		}
	}
}
