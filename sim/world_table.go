package sim

import (
	"encoding/json"
	"errors"
	"fmt"
	"sort"
	"strings"
	"time"

	"github.com/weedbox/pokerface"
	pt "github.com/weedbox/pokertable"
	"verif.local/simrt"
)

// W-TABLE: one table, many hands. Real engine + seat manager + gate + native backend (behind a
// fault-injecting wrapper); simulated players, admin, transport. See DESIGN.md section 3.

// ---- spec parameters (from the property statements) -----------------------------------------
const (
	specResponseTimeoutS = 17 // C11: response timeout of readiness / ante / blind collection
	specOpenGameTimeoutS = 2  // C08: open-game timeout
	specSlackMs          = 1500
)

type tableCfg struct {
	seats          int
	rule           string
	mode           string
	minPlayers     int
	ante           int64
	dealerB        int64
	sb             int64
	bb             int64
	actionTime     int
	interval       int
	nPlayers       int
	horizonMs      int64
	faultEndMs     int64
	admin          bool // admin interventions enabled
	pauseClose     bool // external pause/close/release requests enabled
	leaves         bool
	topups         bool
	lateJoin       bool
	blindOps       bool
	rogue          bool
	backendF       bool
	judge          bool // wrap client calls in judged (atomic before/after) sections
	withhold       int  // per-mille probability that a client withholds an answer during the fault window
	netFaults      bool
	allinBias      int
	preJoin        bool // players given in CreateTable setting
	midLeave       bool // allow a dealt-in player to leave while the hand runs (known finding territory)
	slowSub        bool
	atomicCalls    bool // harness calls run as atomic (judgeable) sections; false = they interleave with the engine at statement level
	slowSubOneIn   int
	churn          bool
	noRebuy        bool // busted players stay seated without chips (bystanders in front of the others)
	frontBystander bool
	stampede       bool // C16: every participant submits game actions at every turn, concurrently and in duplicate
}

type delivery struct {
	at   int64
	seq  int64
	snap *pt.Table
}

type tclient struct {
	id        string
	st        *simrt.Stream
	box       []delivery
	wake      chan struct{}
	lastKey   string
	gone      bool
	seated    bool
	catchUp   bool
	finishedK int
}

type tableWorld struct {
	c                                    *Ctx
	cfg                                  tableCfg
	eng                                  pt.TableEngine
	be                                   *faultBackend
	clients                              map[string]*tclient
	order                                []string
	seq                                  int64
	mon                                  *tableMon
	adminSt                              *simrt.Stream
	netSt                                *simrt.Stream
	blind                                blindRec
	closedAtMs, releasedAtMs, pausedAtMs int64
	ledgerInFlight                       int
	memberInFlight                       int
	anyInFlight                          int
	unit                                 int64
	alignWake                            chan struct{}
	alignWake2                           chan struct{}
	chaseWake                            chan int64 // a slow delivery is holding the engine lock for this long
	handEndWake                          chan struct{}
	forceSlowMs                          int64
	foc                                  string // the property whose neighbourhood this run's workload is biased towards
	rogueWake                            chan struct{}
	lastRogueKey                         int64
}

type blindRec struct {
	level                int
	ante, dealer, sb, bb int64
}

func init() { RegisterWorld("table", func() World { return &tableWorld{} }) }

func (w *tableWorld) Name() string { return "table" }

func (w *tableWorld) focus(p ...string) bool {
	for _, x := range p {
		if w.foc == x {
			return true
		}
	}
	return false
}

// altFoci: workloads biased towards another property's neighbourhood. Every oracle is evaluated in
// every run, so one run in six borrows the bias of another check (swarm variation: a check must not
// silently depend on its own workload's blind spots).
var altFoci = []string{"", "C01", "C03", "C05", "C07", "C08", "C10", "C11", "C12", "C13", "C14", "C15", "C16"}

func (w *tableWorld) drawCfg() {
	c := w.c
	f := w.focus
	g := &w.cfg
	w.foc = c.Job.Property
	if v, ok := c.Ov("focus"); ok {
		w.foc = v
	} else if c.CfgBool("alt_focus", 1, 6) {
		w.foc = altFoci[c.CfgInt("alt_focus_i", 0, len(altFoci)-1)]
	}
	c.Cfg["focus"] = w.foc
	g.seats = c.CfgInt("seats", 2, 10)
	if c.CfgBool("nine_seats", 1, 4) {
		g.seats = 9
		c.Cfg["seats"] = 9
	}
	g.rule = c.CfgPick("rule", []string{pt.CompetitionRule_Default, pt.CompetitionRule_ShortDeck}, 88, 12)
	g.mode = c.CfgPick("mode", []string{pt.CompetitionMode_MTT, pt.CompetitionMode_CT, pt.CompetitionMode_Cash}, 50, 35, 15)
	g.minPlayers = 2
	if c.CfgBool("min3", 1, 8) {
		g.minPlayers = 3
		c.Cfg["min_players"] = 3
	}
	g.nPlayers = 2 + c.CfgInt("players", 0, 8)
	if g.nPlayers > g.seats {
		g.nPlayers = g.seats
	}
	g.bb = []int64{20, 2, 100, 20}[c.CfgInt("bb_i", 0, 3)]
	g.sb = g.bb / 2
	if c.CfgBool("no_sb", 1, 7) {
		g.sb = 0
	}
	if c.CfgBool("ante_on", 2, 5) {
		g.ante = g.bb / 4
		if g.ante == 0 {
			g.ante = 1
		}
	}
	if c.CfgBool("dealer_blind", 1, 7) {
		g.dealerB = g.bb / 2
	}
	if g.rule == pt.CompetitionRule_ShortDeck {
		g.sb, g.bb = 0, 0
		g.dealerB = 20
		if g.ante == 0 {
			g.ante = 10
		}
	}
	g.actionTime = []int{10, 1, 3, 20, 30}[c.CfgInt("action_time_i", 0, 4)]
	g.interval = []int{1, 0, 2, 3}[c.CfgInt("interval_i", 0, 3)]
	g.horizonMs = int64(30+c.CfgInt("horizon_s", 0, 150)) * 1000
	if c.Job.Tier == "thorough" && c.CfgBool("long", 1, 4) {
		g.horizonMs *= 2
	}
	if c.Job.StopAtMs > 0 && c.Job.StopAtMs < g.horizonMs {
		g.horizonMs = c.Job.StopAtMs
	}
	g.faultEndMs = g.horizonMs * 6 / 10
	g.admin = c.CfgBool("admin", 3, 5)
	g.pauseClose = g.admin && c.CfgBool("pause_close", 1, 4)
	g.leaves = g.admin && c.CfgBool("leaves", 1, 2)
	g.topups = g.admin && c.CfgBool("topups", 2, 3)
	g.lateJoin = g.admin && c.CfgBool("late_join", 2, 3)
	g.blindOps = g.admin && c.CfgBool("blind_ops", 1, 3)
	g.rogue = c.CfgBool("rogue", 1, 4)
	g.backendF = c.CfgBool("backend_faults", 1, 8)
	g.judge = c.CfgBool("judge", 1, 2)
	g.atomicCalls = c.CfgBool("atomic_calls", 3, 5)
	g.withhold = []int{0, 0, 50, 200, 600}[c.CfgInt("withhold_i", 0, 4)]
	g.netFaults = c.CfgBool("net_faults", 1, 3)
	g.allinBias = []int{8, 0, 30, 80}[c.CfgInt("allin_i", 0, 3)]
	g.preJoin = c.CfgBool("prejoin", 1, 4)
	g.midLeave = g.leaves && c.CfgBool("mid_leave", 1, 10)
	g.churn = g.admin && c.CfgBool("churn", 1, 5)
	g.frontBystander = c.CfgBool("front_bystander", 1, 12)
	g.slowSub = c.CfgBool("slow_subscriber", 1, 10)
	g.slowSubOneIn = 40
	// focus-specific bias
	switch {
	case f("C07"):
		if !c.CfgBool("c07_admin", 1, 2) {
			g.pauseClose = false
		}
		g.admin = true
		g.slowSub = c.CfgBool("c07_slow_subscriber", 1, 2)
		g.slowSubOneIn = 3
	case f("C08", "C11"):
		g.pauseClose = false
		if f("C11") {
			g.backendF = false
		}
	case f("C12"):
		g.admin, g.blindOps = true, true
	case f("C13"):
		g.backendF, g.judge = true, true
	case f("C10"):
		g.rogue, g.judge = true, true
	case f("C01"):
		g.admin, g.topups = true, true
	case f("C05"):
		// busts and re-buys around the settlement, with subscribers that keep the engine waiting
		g.admin, g.topups = true, true
		if c.CfgBool("c05_busts", 1, 2) {
			g.allinBias = 80
		}
		g.slowSub = c.CfgBool("c05_slow_subscriber", 1, 2)
		g.slowSubOneIn = 5
	case f("C02"):
		// membership changes queued behind a lock that a slow listener keeps held while the hand ends
		g.admin, g.leaves = true, true
		g.topups = true
		g.churn = c.CfgBool("c02_churn", 2, 3)
		g.frontBystander = c.CfgBool("c02_front_bystander", 1, 2)
		if c.CfgBool("c02_busts", 1, 2) {
			g.allinBias = 80 // busted players stay seated as bystanders in front of the others in the list
			g.noRebuy = true
			if g.nPlayers < 5 && g.seats >= 6 {
				g.nPlayers = 6
			}
		}
		g.slowSub = c.CfgBool("c02_slow_listeners", 1, 2)
		g.slowSubOneIn = 3
	}
	if f("C08", "C11", "C13") {
		g.midLeave = false
	}
	if f("C10") {
		g.atomicCalls = true
		// "submitted sequentially or concurrently": a quarter of the runs submit the actions of all seats
		// at the same instant, not atomically
		g.stampede = c.CfgBool("c10_stampede", 1, 4)
	}
	if f("C13") {
		g.atomicCalls = c.CfgBool("c13_atomic", 2, 3)
		g.rogue = true
	}
	if !g.atomicCalls {
		g.judge = false
	}
	if f("C16") {
		g.stampede = c.CfgBool("stampede", 4, 5)
	}
	if f("C16", "C10") {
		if g.stampede {
			g.judge, g.midLeave, g.pauseClose, g.backendF, g.slowSub = false, false, false, false, false
		}
	}
	c.Cfg["cfg"] = fmt.Sprintf("%+v", *g)
}

func (w *tableWorld) Run(c *Ctx) {
	w.c = c
	w.drawCfg()
	g := w.cfg
	w.alignWake = make(chan struct{}, 1)
	w.rogueWake = make(chan struct{}, 1)
	w.adminSt = c.St.Get("admin")
	w.netSt = c.St.Get("net")
	w.clients = map[string]*tclient{}
	w.mon = newTableMon(w)
	w.be = newFaultBackend(w)
	opts := pt.NewTableEngineOptions()
	opts.GameContinueInterval = g.interval
	eng := pt.NewTableEngine(opts, pt.WithGameBackend(w.be))
	w.eng = eng
	w.hookCallbacks()

	ids := make([]string, 0, g.nPlayers)
	for i := 0; i < g.nPlayers; i++ {
		ids = append(ids, fmt.Sprintf("p%d", i))
	}
	for _, id := range ids {
		w.newClient(id)
	}
	setting := pt.TableSetting{
		TableID: "t1",
		Meta: pt.TableMeta{CompetitionID: "c1", Rule: g.rule, Mode: g.mode, MaxDuration: 36000, TableMaxSeatCount: g.seats,
			TableMinPlayerCount: g.minPlayers, MinChipUnit: 1, ActionTime: g.actionTime},
		Blind: pt.TableBlindState{Level: 1, Ante: g.ante, Dealer: g.dealerB, SB: g.sb, BB: g.bb},
	}
	w.blind = blindRec{1, g.ante, g.dealerB, g.sb, g.bb}
	startBreak := w.focus("C12") && c.CfgBool("start_on_break", 1, 10)
	if startBreak {
		setting.Blind.Level = -1
		w.blind.level = -1
	}
	startUnset := w.focus("C07", "C12") && !startBreak && c.CfgBool("start_with_blinds_unset", 1, 4)
	if startUnset {
		setting.Blind.Level = 0
		w.blind.level = 0
	}
	w.mon.initialBlind = w.blind
	unit := g.bb
	if unit == 0 {
		unit = g.dealerB
	}
	if unit == 0 {
		unit = 20
	}
	w.unit = unit
	stack := func(st *simrt.Stream) int64 {
		switch st.Pick(40, 15, 15, 15, 15) {
		case 1:
			return int64(1 + st.Draw(int(unit)+2))
		case 2:
			return unit*2 + int64(st.Draw(int(unit)*3+1))
		case 3:
			return unit * int64(20+st.Draw(200))
		case 4:
			return unit * 5
		}
		return unit*10 + int64(st.Draw(int(unit)*40+1))
	}
	cs := c.St.Get("config")
	var pre []pt.JoinPlayer
	if g.preJoin {
		for _, id := range ids {
			seat := -1
			pre = append(pre, pt.JoinPlayer{PlayerID: id, RedeemChips: stack(cs), Seat: seat})
		}
		setting.JoinPlayers = pre
	}
	tb, err := eng.CreateTable(setting)
	if err != nil {
		c.Logf("CreateTable error %v", err)
		c.Res.Infra = append(c.Res.Infra, "CreateTable failed: "+err.Error())
		return
	}
	w.mon.onCreated(tb, pre, startBreak)
	for _, id := range ids {
		simrt.Go(0, "client."+id, func() { w.clientLoop(w.clients[id]) })
	}
	if !g.preJoin {
		usedSeat := map[int]bool{}
		if g.frontBystander && g.nPlayers < g.seats {
			// a seated player without chips at the front of the player list (never dealt in, never re-buys)
			w.doReserve("root", pt.JoinPlayer{PlayerID: "z0", RedeemChips: 0, Seat: -1}, false)
			w.doJoin("root", "z0")
		}
		for _, id := range ids {
			seat := -1
			if cs.Chance(1, 2) {
				seat = cs.Draw(g.seats)
				if usedSeat[seat] {
					seat = -1
				} else {
					usedSeat[seat] = true
				}
			}
			w.doReserve("root", pt.JoinPlayer{PlayerID: id, RedeemChips: stack(cs), Seat: seat}, false)
		}
	}
	// players join (or are auto-joined after the 17 s timeout)
	for _, id := range ids {
		if cs.Chance(1, 6) {
			continue // let the auto-join timeout seat this one
		}
		w.doJoin("root", id)
	}
	if g.mode != pt.CompetitionMode_MTT {
		simrt.Sleep(0, time.Duration(cs.Draw(3))*time.Second)
		err := eng.StartTableGame()
		c.Logf("StartTableGame -> %v", err)
	}
	if startUnset {
		// the competition service sets the blinds later; a close / release request may land right
		// before (while the engine is retrying the first open)
		simrt.Go(0, "blind-setter", func() {
			st := w.adminSt
			t1 := 2500 + st.Draw(24000)
			gap := st.Draw(3200)
			closeFirst := g.pauseClose && st.Chance(2, 3)
			if closeFirst && t1 > gap {
				simrt.Sleep(0, time.Duration(t1-gap)*time.Millisecond)
				if st.Chance(1, 2) {
					c.Fault("F5_close")
					w.mon.adminEvent("close")
					w.eng.CloseTable()
					w.closedAtMs = c.NowMs()
					c.Logf("CLOSE (before blinds are set)")
				} else {
					c.Fault("F5_release")
					w.mon.adminEvent("release")
					w.eng.ReleaseTable()
					w.releasedAtMs = c.NowMs()
					c.Logf("RELEASE (before blinds are set)")
				}
				simrt.Sleep(0, time.Duration(gap)*time.Millisecond)
			} else {
				simrt.Sleep(0, time.Duration(t1)*time.Millisecond)
			}
			nb := blindRec{1, g.ante, g.dealerB, g.sb, g.bb}
			c.Fault("F5_blind_update")
			w.mon.blindInvoke(nb)
			w.eng.UpdateBlind(nb.level, nb.ante, nb.dealer, nb.sb, nb.bb)
			w.blind = nb
			w.mon.blindReturn(nb)
			c.Logf("UPDATEBLIND %+v (first set)", nb)
		})
	}
	simrt.Go(0, "auditor", w.auditor)
	if g.admin {
		simrt.Go(0, "admin", w.adminTask)
	}
	if g.rogue {
		simrt.Go(0, "rogue", w.rogueTask)
	}
	if g.admin || w.focus("C15") {
		simrt.Go(0, "extender", w.extenderTask)
	}
	if g.admin {
		w.alignWake2 = make(chan struct{}, 1)
		simrt.Go(0, "aligned", func() { w.alignedTask(w.alignWake, "admin.aligned") })
		simrt.Go(0, "aligned2", func() { w.alignedTask(w.alignWake2, "admin.aligned2") })
		if g.churn {
			simrt.Go(0, "churn", w.churnTask)
			w.handEndWake = make(chan struct{}, 1)
			simrt.Go(0, "handend", w.handEndTask)
		}
		if g.pauseClose && g.slowSub {
			w.chaseWake = make(chan int64, 1)
			simrt.Go(0, "chaser", w.chaserTask)
		}
	}
	// horizon
	for c.NowMs() < g.horizonMs && !c.Stopped() {
		simrt.Sleep(0, 500*time.Millisecond)
		if w.mon.handsOpened > 300 {
			c.Inconc("hand_cap")
			break
		}
	}
	if c.Stopped() {
		return
	}
	w.mon.atHorizon()
	c.Res.Summary = fmt.Sprintf("hands=%d settled=%d players=%d seats=%d", w.mon.handsOpened, w.mon.handsSettled, g.nPlayers, g.seats)
	c.Stat("hands", int64(w.mon.handsSettled))
}

func (w *tableWorld) inFaultWindow() bool { return w.c.NowMs() < w.cfg.faultEndMs }

// ---- callbacks -----------------------------------------------------------------------------

func cloneTable(t *pt.Table) *pt.Table {
	b, err := json.Marshal(t)
	if err != nil {
		return nil
	}
	var out pt.Table
	if json.Unmarshal(b, &out) != nil {
		return nil
	}
	return &out
}

func (w *tableWorld) hookCallbacks() {
	c := w.c
	eng := w.eng
	eng.OnTableUpdated(func(t *pt.Table) {
		var slow int64
		// monitors call instrumented helpers of the code under test: keep them in one atomic section
		simrt.Atomic(func() {
			snap := cloneTable(t)
			if snap == nil {
				return
			}
			w.seq = c.Seq()
			w.mon.onSnapshot(snap, w.seq)
			if gs := snap.State.GameState; gs != nil && snap.State.Status == pt.TableStateStatus_TableGamePlaying && gs.Status.CurrentEvent == "RoundClosed" && gs.Status.Round == "river" && w.handEndWake != nil {
				// the last betting round has closed: the next thing the engine does by itself is the
				// settlement. Interventions aimed at this instant queue with it on the engine lock.
				if w.inFaultWindow() && w.netSt.Chance(1, 3) {
					select {
					case w.handEndWake <- struct{}{}:
						// this subscriber is slow for this very snapshot: the engine's updater is parked here,
						// holding no lock, while the interventions get hold of the engine lock
						c.Fault("F8_slow_subscriber")
						slow = int64(100 + w.netSt.Draw(200))
						w.mon.slowness(slow)
					default:
					}
				}
			}
			if snap.State.Status == pt.TableStateStatus_TableGameSettled {
				select {
				case w.alignWake <- struct{}{}:
				default:
				}
				if w.alignWake2 != nil {
					select {
					case w.alignWake2 <- struct{}{}:
					default:
					}
				}
			}
			if gs := snap.State.GameState; gs != nil && gs.UpdatedAt != w.lastRogueKey {
				w.lastRogueKey = gs.UpdatedAt
				select {
				case w.rogueWake <- struct{}{}:
				default:
				}
			}
			if w.forceSlowMs > 0 && slow == 0 {
				c.Fault("F8_slow_subscriber")
				slow = w.forceSlowMs
				w.forceSlowMs = 0
				w.mon.slowness(slow)
				if w.chaseWake != nil && (snap.State.GameState == nil || snap.State.Status == pt.TableStateStatus_TableGameSettled) {
					select {
					case w.chaseWake <- slow:
					default:
					}
				}
			} else if w.cfg.slowSub && slow == 0 && w.inFaultWindow() && w.netSt.Chance(1, w.cfg.slowSubOneIn) {
				c.Fault("F8_slow_subscriber")
				slow = int64(1 + w.netSt.Draw(3000))
				w.mon.slowness(slow)
				if w.chaseWake != nil {
					// between hands is where the engine's own next move (continue handler, open-game gate)
					// queues up behind the lock; during a hand a chase is rare
					v := slow
					if snap.State.GameState != nil && snap.State.Status != pt.TableStateStatus_TableGameSettled {
						v = -slow
					}
					select {
					case w.chaseWake <- v:
					default:
					}
				}
			}
			w.deliver(snap)
		})
		if slow > 0 {
			simrt.Sleep(0, time.Duration(slow)*time.Millisecond)
		}
	})
	eng.OnTableStateUpdated(func(ev string, t *pt.Table) {
		simrt.Atomic(func() { w.mon.onStateEvent(ev, string(t.State.Status), t.State.GameCount) })
	})
	eng.OnTableErrorUpdated(func(t *pt.Table, err error) {
		simrt.Atomic(func() { w.mon.onErrorEvent(err) })
	})
	// listeners that the engine calls while it holds its lock (action published, seat reserved) can be
	// slow as well (F8): whatever wants the lock meanwhile - a departure, the settlement - queues up
	slowListener := func() {
		if w.cfg.slowSub && w.inFaultWindow() && w.netSt.Chance(1, w.cfg.slowSubOneIn*2) {
			var d int64
			simrt.Atomic(func() {
				c.Fault("F8_slow_listener")
				d = int64(1 + w.netSt.Draw(2500))
				w.mon.slowness(d)
			})
			simrt.Sleep(0, time.Duration(d)*time.Millisecond)
		}
	}
	eng.OnGamePlayerActionUpdated(func(a pt.TablePlayerGameAction) {
		simrt.Atomic(func() { w.mon.onActionEvent(a) })
		slowListener()
	})
	eng.OnTablePlayerReserved(func(cid, tid string, ps *pt.TablePlayerState) {
		simrt.Atomic(func() { w.mon.onReserved(ps.PlayerID, ps.Seat) })
		slowListener()
	})
	eng.OnAutoGameOpenEnd(func(cid, tid string) {
		c.Logf("AutoGameOpenEnd")
	})
	eng.OnReadyOpenFirstTableGame(func(cid, tid string, gc int, ps []*pt.TablePlayerState) {
		parts := map[string]int{}
		for i, p := range ps {
			parts[p.PlayerID] = i
		}
		c.Logf("ReadyOpenFirstTableGame gc=%d n=%d", gc, len(parts))
		eng.SetUpTableGame(gc, parts)
	})
}

// ---- transport -----------------------------------------------------------------------------

func (w *tableWorld) newClient(id string) *tclient {
	cl := &tclient{id: id, st: w.c.St.Get("client." + id), wake: make(chan struct{}, 1)}
	w.clients[id] = cl
	w.order = append(w.order, id)
	return cl
}

func (w *tableWorld) deliver(snap *pt.Table) {
	now := w.c.NowMs()
	for _, id := range w.order {
		cl := w.clients[id]
		if cl.gone {
			continue
		}
		delay := int64(0)
		copies := 1
		if w.cfg.netFaults && w.inFaultWindow() {
			switch w.netSt.Pick(80, 8, 6, 3, 3) {
			case 1:
				delay = int64(1 + w.netSt.Draw(300))
				w.c.Fault("F1_notify_delayed")
			case 2:
				delay = int64(300 + w.netSt.Draw(4000))
				w.c.Fault("F1_notify_delayed_long")
			case 3:
				copies = 0
				w.c.Fault("F1_notify_dropped")
			case 4:
				copies = 2
				w.c.Fault("F1_notify_duplicated")
			}
		}
		for k := 0; k < copies; k++ {
			cl.box = append(cl.box, delivery{at: now + delay + int64(k)*7, seq: w.seq, snap: snap})
		}
		select {
		case cl.wake <- struct{}{}:
		default:
		}
	}
}

func (w *tableWorld) clientLoop(cl *tclient) {
	c := w.c
	for !c.Stopped() && !cl.gone {
		now := c.NowMs()
		// earliest deliverable
		sort.SliceStable(cl.box, func(i, j int) bool { return cl.box[i].at < cl.box[j].at })
		if len(cl.box) > 0 && cl.box[0].at <= now {
			d := cl.box[0]
			cl.box = cl.box[1:]
			w.react(cl, d.snap)
			continue
		}
		wait := 5 * time.Second
		if len(cl.box) > 0 {
			wait = time.Duration(cl.box[0].at-now) * time.Millisecond
		}
		if !w.inFaultWindow() && !cl.catchUp {
			// faults have stopped: answer whatever is pending according to the live table
			cl.catchUp = true
			cl.lastKey = ""
			if t := w.eng.GetTable(); t != nil {
				if s := cloneTable(t); s != nil {
					w.react(cl, s)
				}
			}
			continue
		}
		select {
		case <-cl.wake:
		case <-time.After(wait):
		}
	}
}

// think draws a think/network delay before a request is sent.
func (w *tableWorld) think(cl *tclient) {
	var d int
	if w.inFaultWindow() {
		d = []int{2, 0, 5, 50, 200, 800, 2500, 9000}[cl.st.Draw(8)]
	} else {
		d = []int{2, 5, 50, 200}[cl.st.Draw(4)]
	}
	if d > 0 {
		simrt.Sleep(0, time.Duration(d)*time.Millisecond)
	}
}

func (w *tableWorld) withheld(cl *tclient, what string) bool {
	if !w.inFaultWindow() || w.cfg.withhold == 0 {
		return false
	}
	if cl.st.Draw(1000) >= 1000-w.cfg.withhold {
		w.c.Fault("F3_answer_withheld_" + what)
		return true
	}
	return false
}

func rosterOf(t *pt.Table) []string {
	out := make([]string, 0, len(t.State.GamePlayerIndexes))
	for _, pi := range t.State.GamePlayerIndexes {
		if pi >= 0 && pi < len(t.State.PlayerStates) {
			out = append(out, t.State.PlayerStates[pi].PlayerID)
		} else {
			out = append(out, fmt.Sprintf("?idx%d", pi))
		}
	}
	return out
}

func indexOf(l []string, s string) int {
	for i, x := range l {
		if x == s {
			return i
		}
	}
	return -1
}

func hasStr(l []string, s string) bool { return indexOf(l, s) >= 0 }

func (w *tableWorld) react(cl *tclient, t *pt.Table) {
	st := t.State
	me := -1
	for i, p := range st.PlayerStates {
		if p.PlayerID == cl.id {
			me = i
		}
	}
	if me < 0 {
		return
	}
	switch st.Status {
	case pt.TableStateStatus_TableGameSettled:
		if cl.finishedK != st.GameCount && st.PlayerStates[me].IsIn {
			cl.finishedK = st.GameCount
			if w.withheld(cl, "settlement_finish") {
				return
			}
			w.think(cl)
			err := w.eng.PlayerSettlementFinish(cl.id)
			w.mon.onSettlementFinish(cl.id, st.GameCount, err)
		}
		return
	case pt.TableStateStatus_TableGamePlaying, pt.TableStateStatus_TableGameOpened:
	default:
		return
	}
	gs := st.GameState
	if gs == nil {
		return
	}
	gi := indexOf(rosterOf(t), cl.id)
	if gi < 0 || gi >= len(gs.Players) {
		return
	}
	p := gs.Players[gi]
	if len(p.AllowedActions) == 0 {
		return
	}
	la := ""
	if gs.Status.LastAction != nil {
		la = fmt.Sprintf("%d:%s:%d", gs.Status.LastAction.Source, gs.Status.LastAction.Type, gs.Status.LastAction.Value)
	}
	acted := 0
	for _, q := range gs.Players {
		if q.Acted {
			acted++
		}
	}
	key := fmt.Sprintf("%s|%s|%s|%d|%v|%d|%s|%d|%d", gs.GameID, gs.Status.CurrentEvent, gs.Status.Round, gs.Status.CurrentPlayer, p.AllowedActions, gs.Status.CurrentWager, la, acted, gs.Status.CurrentRoundPot)
	if key == cl.lastKey && !(w.cfg.netFaults && w.inFaultWindow() && cl.st.Chance(1, 10)) {
		return
	}
	cl.lastKey = key
	has := func(a string) bool { return hasStr(p.AllowedActions, a) }
	switch {
	case has("ready"):
		if w.withheld(cl, "ready") {
			return
		}
		w.think(cl)
		w.act(cl.id, "ready", 0, "client")
	case has("pay"):
		if w.withheld(cl, "pay") {
			return
		}
		w.think(cl)
		amt := gs.Meta.Ante
		if gs.Status.CurrentEvent == "BlindsRequested" {
			switch {
			case hasStr(p.Positions, "bb"):
				amt = gs.Meta.Blind.BB
			case hasStr(p.Positions, "sb"):
				amt = gs.Meta.Blind.SB
			default:
				amt = gs.Meta.Blind.Dealer
			}
		}
		w.act(cl.id, "pay", amt, "client")
	case has("pass"):
		w.think(cl)
		w.act(cl.id, "pass", 0, "client")
	default:
		if w.cfg.stampede {
			// everybody submits at every turn, twice, from separate tasks, without thinking
			a, amt := w.chooseWager(cl.st, gs, p)
			w.c.Fault("F2_simultaneous_actions")
			isCur := gs.Status.CurrentPlayer == gi
			for k := 0; k < 2; k++ {
				first := k == 0
				simrt.Go(0, "stampede."+cl.id, func() {
					err := w.act(cl.id, a, amt, "client")
					if err != nil && first && isCur && (a == "bet" || a == "raise") {
						// the player whose turn it is keeps responding after a refused amount
						for _, fb := range []string{"check", "call", "fold", "allin"} {
							if hasStr(p.AllowedActions, fb) {
								w.act(cl.id, fb, 0, "client")
								break
							}
						}
					}
				})
			}
			return
		}
		if gs.Status.CurrentPlayer != gi {
			return
		}
		if w.withheld(cl, "wager") {
			return
		}
		w.think(cl)
		a, amt := w.chooseWager(cl.st, gs, p)
		if err := w.act(cl.id, a, amt, "client"); err != nil && (a == "bet" || a == "raise") {
			// a refused amount: fall back to an action that needs none, so that the player keeps responding
			for _, fb := range []string{"check", "call", "fold", "allin"} {
				if hasStr(p.AllowedActions, fb) {
					w.act(cl.id, fb, 0, "client")
					break
				}
			}
		}
	}
}

func (w *tableWorld) chooseWager(st *simrt.Stream, gs *pokerface.GameState, p *pokerface.PlayerState) (string, int64) {
	wts := map[string]int{"check": 40, "call": 35, "fold": 12, "bet": 10, "raise": 10, "allin": w.cfg.allinBias}
	var acts []string
	var ws []int
	// deterministic order
	for _, a := range []string{"check", "call", "fold", "bet", "raise", "allin"} {
		if hasStr(p.AllowedActions, a) {
			acts = append(acts, a)
			ws = append(ws, wts[a])
		}
	}
	if len(acts) == 0 {
		return p.AllowedActions[0], 0
	}
	tot := 0
	for _, x := range ws {
		tot += x
	}
	if tot == 0 {
		return acts[0], 0
	}
	a := acts[st.Pick(ws...)]
	switch a {
	case "bet":
		lo, hi := gs.Status.MiniBet, p.StackSize
		if st.Chance(1, 12) {
			return a, int64(st.Draw(3)) * (hi + 1) // 0 or above the stack: the rule engine must refuse
		}
		if hi <= lo {
			return a, hi
		}
		return a, lo + int64(st.Draw(int(min64(hi-lo, 5000))+1))
	case "raise":
		lo, hi := gs.Status.CurrentWager+gs.Status.PreviousRaiseSize, p.InitialStackSize
		if st.Chance(1, 12) {
			return a, int64(st.Draw(2)) * (hi + 7)
		}
		if hi <= lo {
			return a, hi
		}
		return a, lo + int64(st.Draw(int(min64(hi-lo, 5000))+1))
	}
	return a, 0
}

func min64(a, b int64) int64 {
	if a < b {
		return a
	}
	return b
}

// ---- calls into the engine (recorded, optionally judged) --------------------------------------

func (w *tableWorld) rawAct(id, action string, amt int64) error {
	e := w.eng
	switch action {
	case "ready":
		return e.PlayerReady(id)
	case "pay":
		return e.PlayerPay(id, amt)
	case "pass":
		return e.PlayerPass(id)
	case "fold":
		return e.PlayerFold(id)
	case "check":
		return e.PlayerCheck(id)
	case "call":
		return e.PlayerCall(id)
	case "allin":
		return e.PlayerAllin(id)
	case "bet":
		return e.PlayerBet(id, amt)
	case "raise":
		return e.PlayerRaise(id, amt)
	}
	return errors.New("harness: unknown action")
}

func isWager(a string) bool {
	switch a {
	case "fold", "check", "call", "allin", "bet", "raise":
		return true
	}
	return false
}

// act submits one game action. who is "client" (normal) or "rogue".
func (w *tableWorld) act(id, action string, amt int64, who string) error {
	return w.actN(id, action, amt, who, 0)
}

func (w *tableWorld) actN(id, action string, amt int64, who string, depth int) error {
	c := w.c
	if c.Stopped() {
		return nil
	}
	judged := w.cfg.judge
	var err error
	w.anyInFlight++
	var j judgedAction
	var gc int
	var evKey string
	atomic := true
	if w.cfg.stampede || !w.cfg.atomicCalls {
		// the calls themselves interleave with the engine at statement level
		gc, _ = w.mon.preLight()
		evKey = "?"
		pend := w.mon.pendingAction(id, action, amt, gc) // visible to the monitors while the call is in flight
		err = w.rawAct(id, action, amt)
		w.mon.finishPending(pend, err)
		w.mon.markNotAtomic(gc)
		w.anyInFlight--
		c.Logf("ACT %s %s %d (%s, interleaved) -> %v", id, action, amt, who, err)
		if err != nil && err.Error() == errInjected.Error() && who == "client" && depth < 4 {
			return w.actN(id, action, amt, who, depth+1) // the same action can be submitted again (C13)
		}
		return err
	} else {
		atomic = simrt.Atomic(func() {
			gc, evKey = w.mon.preLight()
			if judged {
				j = w.mon.preAction(id, action, amt)
			}
			err = w.rawAct(id, action, amt)
			if judged {
				w.mon.postAction(&j, err)
			}
		})
	}
	if !atomic {
		c.Inconc("not_atomic")
		evKey = "?"
		w.mon.markNotAtomic(gc)
	} else if judged {
		w.mon.judgeAction(&j, err, who)
	}
	w.mon.recordAction(id, action, amt, err, gc, evKey)
	if err != nil && err.Error() == errInjected.Error() && !judged && who == "client" && depth < 4 {
		// the caller got the backend's error: the same action can be submitted again (C13)
		w.anyInFlight--
		c.Logf("ACT %s %s %d (%s) -> %v ; retrying", id, action, amt, who, err)
		return w.actN(id, action, amt, who, depth+1)
	}
	w.anyInFlight--
	c.Logf("ACT %s %s %d (%s) -> %v", id, action, amt, who, err)
	return err
}

// section runs f as an atomic (judgeable) section, or plainly when the run explores interleavings
// of the calls themselves.
func (w *tableWorld) section(f func()) bool {
	if w.cfg.atomicCalls {
		return simrt.Atomic(f)
	}
	f()
	return false
}

func (w *tableWorld) doReserve(who string, jp pt.JoinPlayer, rebuy bool) error {
	c := w.c
	w.ledgerInFlight++
	w.memberInFlight++
	var err error
	var before *memberSnap
	var after *memberSnap
	tu := w.mon.topupInvoke(jp.PlayerID, jp.RedeemChips)
	atomic := w.section(func() {
		before = w.mon.memberBefore()
		err = w.eng.PlayerReserve(jp)
		after = w.mon.memberBefore()
	})
	w.mon.memberAfter("reserve", before, after, atomic, err, []pt.JoinPlayer{jp}, nil, tu)
	w.ledgerInFlight--
	w.memberInFlight--
	c.Logf("RESERVE %s chips=%d seat=%d (%s) -> %v", jp.PlayerID, jp.RedeemChips, jp.Seat, who, err)
	return err
}

func (w *tableWorld) doJoin(who, id string) error {
	err := w.eng.PlayerJoin(id)
	w.mon.lastMemberOpMs = w.c.NowMs()
	w.c.Logf("JOIN %s (%s) -> %v", id, who, err)
	return err
}

func (w *tableWorld) doRedeem(id string, chips int64) error {
	c := w.c
	w.ledgerInFlight++
	var err error
	var before, after *memberSnap
	tu := w.mon.topupInvoke(id, chips)
	atomic := w.section(func() {
		before = w.mon.memberBefore()
		err = w.eng.PlayerRedeemChips(pt.JoinPlayer{PlayerID: id, RedeemChips: chips})
		after = w.mon.memberBefore()
	})
	w.mon.memberAfter("redeem", before, after, atomic, err, []pt.JoinPlayer{{PlayerID: id, RedeemChips: chips}}, nil, tu)
	w.ledgerInFlight--
	c.Logf("REDEEM %s +%d -> %v", id, chips, err)
	return err
}

func (w *tableWorld) doLeave(ids []string) error {
	c := w.c
	w.ledgerInFlight++
	w.memberInFlight++
	var err error
	var before, after *memberSnap
	w.mon.leaveInvoked(ids)
	atomic := w.section(func() {
		before = w.mon.memberBefore()
		err = w.eng.PlayersLeave(ids)
		after = w.mon.memberBefore()
	})
	for _, fn := range c.Sch.LockWaiters() {
		if strings.Contains(fn, "settleGame") || strings.Contains(fn, "resetTableForNextGame") || strings.Contains(fn, "tableGameOpen") {
			c.Probe("leave_done_while_" + fn[strings.LastIndex(fn, ".")+1:] + "_waits_for_engine_lock")
		}
	}
	w.mon.memberAfter("leave", before, after, atomic, err, nil, ids, nil)
	w.ledgerInFlight--
	w.memberInFlight--
	c.Logf("LEAVE %v -> %v", ids, err)
	if err == nil {
		for _, id := range ids {
			if cl, ok := w.clients[id]; ok {
				cl.gone = true
			}
		}
	}
	return err
}

func (w *tableWorld) doUpdatePlayers(joins []pt.JoinPlayer, leaves []string) error {
	c := w.c
	w.ledgerInFlight++
	w.memberInFlight++
	var err error
	var before, after *memberSnap
	w.mon.leaveInvoked(leaves)
	atomic := w.section(func() {
		before = w.mon.memberBefore()
		_, err = w.eng.UpdateTablePlayers(joins, leaves)
		after = w.mon.memberBefore()
	})
	w.mon.memberAfter("update", before, after, atomic, err, joins, leaves, nil)
	w.ledgerInFlight--
	w.memberInFlight--
	c.Logf("UPDATEPLAYERS joins=%v leaves=%v -> %v", joins, leaves, err)
	if err == nil {
		for _, id := range leaves {
			if cl, ok := w.clients[id]; ok {
				cl.gone = true
			}
		}
	}
	return err
}

// ---- admin task (F5) ---------------------------------------------------------------------------

func (w *tableWorld) adminTask() {
	c := w.c
	g := w.cfg
	st := w.adminSt
	next := 0
	for c.NowMs() < g.faultEndMs && !c.Stopped() {
		simrt.Sleep(0, time.Duration([]int{100, 300, 700, 1500, 3000, 6000}[st.Draw(6)])*time.Millisecond)
		if c.NowMs() >= g.faultEndMs || c.Stopped() {
			break
		}
		tb := w.eng.GetTable()
		if tb == nil {
			continue
		}
		inHand := tb.State.GameState != nil
		var present, absentIDs []string
		parts := map[string]bool{}
		for _, id := range rosterOf(tb) {
			parts[id] = true
		}
		for _, p := range tb.State.PlayerStates {
			if strings.HasPrefix(p.PlayerID, "z") {
				continue // the chipless front bystander is left alone by the admin
			}
			present = append(present, p.PlayerID)
		}
		_ = absentIDs
		switch st.Pick(10, 18, 18, 10, 12, 8, 6, 18) {
		case 1: // add-on
			if !g.topups || len(present) == 0 {
				continue
			}
			id := present[st.Draw(len(present))]
			c.Fault("F5_addon")
			if inHand {
				c.Probe("addon_during_hand")
			}
			w.doRedeem(id, int64(1+st.Draw(int(w.unit)*20+1)))
		case 2: // re-buy (reserve of a seated player), prefer busted
			if !g.topups || len(present) == 0 || g.noRebuy {
				continue
			}
			var busted []string
			for _, p := range tb.State.PlayerStates {
				if p.Bankroll == 0 {
					busted = append(busted, p.PlayerID)
				}
			}
			id := present[st.Draw(len(present))]
			if len(busted) > 0 && !st.Chance(1, 5) {
				id = busted[st.Draw(len(busted))]
				c.Probe("rebuy_of_busted")
			}
			c.Fault("F5_rebuy")
			if inHand {
				c.Probe("rebuy_during_hand")
			}
			w.doReserve("admin", pt.JoinPlayer{PlayerID: id, RedeemChips: int64(1 + st.Draw(int(w.unit)*30+1)), Seat: -1}, true)
		case 3: // late joiner
			if !g.lateJoin || next >= 6 {
				continue
			}
			id := fmt.Sprintf("n%d", next)
			next++
			seat := -1
			if st.Chance(1, 2) {
				seat = st.Draw(g.seats + 1) // may be taken, may be out of range by one
			}
			c.Fault("F3_late_joiner")
			cl := w.newClient(id)
			simrt.Go(0, "client."+id, func() { w.clientLoop(cl) })
			if w.doReserve("admin", pt.JoinPlayer{PlayerID: id, RedeemChips: int64(1 + st.Draw(int(w.unit)*40+1)), Seat: seat}, false) == nil {
				if !st.Chance(1, 4) {
					simrt.Sleep(0, time.Duration(st.Draw(3000))*time.Millisecond)
					w.doJoin("admin", id)
				}
			} else {
				cl.gone = true
			}
		case 4: // leave
			if !g.leaves || len(present) == 0 {
				continue
			}
			id := present[st.Draw(len(present))]
			if parts[id] && !g.midLeave {
				continue
			}
			if parts[id] {
				c.Probe("participant_leaves_mid_hand")
			}
			c.Fault("F5_leave")
			ids := []string{id}
			if st.Chance(1, 8) {
				ids = append(ids, "ghost")
			}
			w.doLeave(ids)
		case 5: // batch update
			if !g.leaves || !g.lateJoin {
				continue
			}
			var joins []pt.JoinPlayer
			var leaves []string
			if st.Chance(1, 2) && next < 6 {
				id := fmt.Sprintf("n%d", next)
				next++
				cl := w.newClient(id)
				simrt.Go(0, "client."+id, func() { w.clientLoop(cl) })
				joins = append(joins, pt.JoinPlayer{PlayerID: id, RedeemChips: int64(1 + st.Draw(int(w.unit)*40+1)), Seat: -1})
			}
			if st.Chance(1, 6) && len(present) > 0 {
				joins = append(joins, pt.JoinPlayer{PlayerID: present[st.Draw(len(present))], RedeemChips: 100, Seat: -1}) // duplicate player
			}
			if st.Chance(1, 2) && len(present) > 0 {
				id := present[st.Draw(len(present))]
				if !parts[id] || g.midLeave {
					leaves = append(leaves, id)
				}
			}
			if st.Chance(1, 8) {
				leaves = append(leaves, "ghost")
			}
			if len(joins)+len(leaves) == 0 {
				continue
			}
			c.Fault("F5_batch_update")
			if w.doUpdatePlayers(joins, leaves) == nil {
				for _, j := range joins {
					w.doJoin("admin", j.PlayerID)
				}
			}
		case 6: // blind change
			if !g.blindOps {
				continue
			}
			lvl := w.blind.level
			switch st.Pick(60, 25, 15) {
			case 0:
				if lvl < 1 {
					lvl = 1
				}
				lvl++
			case 1:
				lvl = -1
			case 2:
				// "blinds not set" again in the middle of a competition is an odd request: only the
				// workloads about opening conditions issue it
				if w.focus("C07", "C12") {
					lvl = 0
				} else {
					lvl = -1
				}
			}
			nb := blindRec{lvl, w.blind.ante, w.blind.dealer, w.blind.sb, w.blind.bb}
			if lvl > 0 {
				nb.bb = w.blind.bb + int64(1+st.Draw(20))
				if w.blind.sb > 0 {
					nb.sb = nb.bb / 2
				}
				if w.blind.ante > 0 {
					nb.ante = w.blind.ante + 1
				}
			}
			c.Fault("F5_blind_update")
			w.mon.blindInvoke(nb)
			w.eng.UpdateBlind(nb.level, nb.ante, nb.dealer, nb.sb, nb.bb)
			w.blind = nb
			w.mon.blindReturn(nb)
			c.Logf("UPDATEBLIND %+v", nb)
			if lvl <= 0 {
				// come back from the break / unset level later
				simrt.Sleep(0, time.Duration(2000+st.Draw(12000))*time.Millisecond)
				nb2 := nb
				nb2.level = 5
				w.mon.blindInvoke(nb2)
				w.eng.UpdateBlind(nb2.level, nb2.ante, nb2.dealer, nb2.sb, nb2.bb)
				w.blind = nb2
				w.mon.blindReturn(nb2)
				c.Logf("UPDATEBLIND %+v (resume)", nb2)
				if tb := w.eng.GetTable(); tb != nil && tb.State.Status == pt.TableStateStatus_TablePausing && st.Chance(2, 3) {
					// the competition service re-opens a paused table with an explicit set-up, like the first hand
					w.resumeTable()
				}
			}
		case 7: // pause / close / release
			if !g.pauseClose {
				continue
			}
			switch st.Pick(50, 25, 25) {
			case 0:
				c.Fault("F5_pause")
				w.pausedAtMs = c.NowMs()
				w.mon.adminEvent("pause")
				w.eng.PauseTable()
				c.Logf("PAUSE")
			case 1:
				c.Fault("F5_close")
				w.mon.adminEvent("close")
				w.eng.CloseTable()
				w.closedAtMs = c.NowMs()
				w.mon.adminEvent("closed")
				c.Logf("CLOSE")
				return
			case 2:
				c.Fault("F5_release")
				w.mon.adminEvent("release")
				w.eng.ReleaseTable()
				w.releasedAtMs = c.NowMs()
				w.mon.adminEvent("released")
				c.Logf("RELEASE")
				return
			}
		}
	}
}

func (w *tableWorld) resumeTable() {
	tb := w.eng.GetTable()
	parts := map[string]int{}
	i := 0
	for _, p := range tb.State.PlayerStates {
		if p.Bankroll > 0 && p.IsIn {
			parts[p.PlayerID] = i
			i++
		}
	}
	w.c.Logf("RESUME set-up gc=%d parts=%d", tb.State.GameCount+1, len(parts))
	w.mon.adminEvent("resume")
	w.eng.SetUpTableGame(tb.State.GameCount+1, parts)
}

// ---- rogue task (F2) ---------------------------------------------------------------------------

func (w *tableWorld) rogueTask() {
	c := w.c
	st := c.St.Get("client.rogue")
	acts := []string{"ready", "pay", "pass", "fold", "check", "call", "allin", "bet", "raise"}
	for c.NowMs() < w.cfg.faultEndMs && !c.Stopped() {
		// at drawn times, and right when the hand publishes a new state (so that a stray action can
		// overlap the engine's own next step)
		select {
		case <-w.rogueWake:
		case <-time.After(time.Duration([]int{20, 100, 400, 1000, 2500}[st.Draw(5)]) * time.Millisecond):
		}
		if c.NowMs() >= w.cfg.faultEndMs || c.Stopped() {
			break
		}
		tb := w.eng.GetTable()
		if tb == nil {
			continue
		}
		var id string
		switch st.Pick(70, 15, 15) {
		case 0:
			if len(tb.State.PlayerStates) == 0 {
				continue
			}
			id = tb.State.PlayerStates[st.Draw(len(tb.State.PlayerStates))].PlayerID
		case 1:
			id = "stranger"
		default:
			r := rosterOf(tb)
			if len(r) == 0 {
				continue
			}
			id = r[st.Draw(len(r))]
		}
		a := acts[st.Draw(len(acts))]
		amt := int64(st.Draw(200))
		c.Fault("F2_rogue_action")
		w.act(id, a, amt, "rogue")
	}
}

// ---- aligned interventions (F5 placed where in-flight state exists) ------------------------------
//
// Uniformly timed interventions almost never share a simulated instant with the engine's own
// transitions. This task aims them: at the instant the continue handler runs (settlement +
// continue interval) and at the instant the open-game gate fires (that + open-game timeout, or the
// last settlement-finish signal), so that the scheduler can interleave them with tableGameOpen /
// continueGame statement by statement.
func (w *tableWorld) alignedTask(wake chan struct{}, stream string) {
	c := w.c
	g := w.cfg
	st := c.St.Get(stream)
	next := 100
	if stream != "admin.aligned" {
		next = 200
	}
	for c.NowMs() < g.faultEndMs && !c.Stopped() {
		select {
		case <-wake:
		case <-time.After(3 * time.Second):
			continue
		}
		base := w.mon.lastSettledMs
		// (the third target is the settlement itself: the engine is between "results applied" and "table reset")
		targets := []int64{base + int64(g.interval)*1000, base + int64(g.interval)*1000 + specOpenGameTimeoutS*1000, base}
		tgt := targets[st.Draw(3)]
		if d := tgt - c.NowMs(); d > 0 {
			simrt.Sleep(0, time.Duration(d)*time.Millisecond)
		}
		if c.NowMs() >= g.faultEndMs || c.Stopped() {
			return
		}
		tb := w.eng.GetTable()
		if tb == nil || len(tb.State.PlayerStates) == 0 {
			continue
		}
		ids := []string{}
		for _, p := range tb.State.PlayerStates {
			if strings.HasPrefix(p.PlayerID, "z") {
				continue
			}
			ids = append(ids, p.PlayerID)
		}
		if len(ids) == 0 {
			continue
		}
		c.Fault("F5_aligned_intervention")
		if w.focus("C07") && g.slowSub && tgt != base && st.Chance(1, 2) {
			// the call made at the instant the engine decides / the gate fires meets a slow subscriber: the
			// engine's own next move queues behind the lock this call keeps (and the chaser may close meanwhile)
			w.forceSlowMs = int64(400 + st.Draw(2200))
		}
		closeW := 10
		if w.focus("C07") {
			closeW = 45
		}
		switch st.Pick(25, 25, 15, 15, closeW, 10) {
		case 0:
			if g.topups {
				id := ids[st.Draw(len(ids))]
				var busted []string
				for _, p := range tb.State.PlayerStates {
					if p.Bankroll == 0 && !strings.HasPrefix(p.PlayerID, "z") {
						busted = append(busted, p.PlayerID)
					}
				}
				if len(busted) > 0 && st.Chance(2, 3) {
					id = busted[st.Draw(len(busted))] // a busted player buys chips again
				}
				w.doRedeem(id, int64(1+st.Draw(int(w.unit)*10+1)))
			}
		case 1:
			if g.lateJoin && next%100 < 6 {
				id := fmt.Sprintf("n%d", next)
				next++
				cl := w.newClient(id)
				simrt.Go(0, "client."+id, func() { w.clientLoop(cl) })
				if w.doReserve("aligned", pt.JoinPlayer{PlayerID: id, RedeemChips: int64(1 + st.Draw(int(w.unit)*40+1)), Seat: -1}, false) == nil {
					w.doJoin("aligned", id)
				} else {
					cl.gone = true
				}
			}
		case 2:
			if g.leaves {
				id := ids[st.Draw(len(ids))]
				if indexOf(rosterOf(tb), id) < 0 {
					w.doLeave([]string{id})
				}
			}
		case 3:
			if g.blindOps {
				nb := w.blind
				nb.level++
				nb.bb += int64(1 + st.Draw(9))
				w.mon.blindInvoke(nb)
				w.eng.UpdateBlind(nb.level, nb.ante, nb.dealer, nb.sb, nb.bb)
				w.blind = nb
				w.mon.blindReturn(nb)
				c.Logf("UPDATEBLIND %+v (aligned)", nb)
			}
		case 4:
			if g.pauseClose && st.Chance(1, 2) {
				// shortly after the instant at which the engine decides / the gate fires: a locked call
				// with a slow subscriber may be holding the engine lock right now
				if d := []int{0, 0, 100, 500, 1200, 2500}[st.Draw(6)]; d > 0 {
					simrt.Sleep(0, time.Duration(d)*time.Millisecond)
				}
				c.Fault("F5_close")
				w.mon.adminEvent("close")
				w.eng.CloseTable()
				w.closedAtMs = c.NowMs()
				c.Logf("CLOSE (aligned)")
				return
			}
		case 5:
			// the competition service repeats its set-up call for the coming hand
			// (a repeat only: the engine has already set the coming hand up itself. Setting a hand up on
			// behalf of an engine that is still deciding whether to pause would be the caller's error.)
			ogm := pt.VerifOpenGameManager(w.eng)
			if tb.State.GameState == nil && tb.State.StartAt != -1 && w.focus("C07", "C09", "") && ogm != nil && ogm.GetState().GameCount == tb.State.GameCount+1 {
				parts := map[string]int{}
				for _, p := range tb.State.PlayerStates {
					if p.Bankroll > 0 && p.IsIn {
						parts[p.PlayerID] = len(parts)
					}
				}
				if len(parts) >= 2 {
					c.Fault("F5_repeated_setup")
					w.mon.externalSetup()
					c.Logf("SETUP repeated gc=%d parts=%d", tb.State.GameCount+1, len(parts))
					w.eng.SetUpTableGame(tb.State.GameCount+1, parts)
				}
			}
		}
	}
}

// churnTask is a second service changing the membership (departures of bystanders, top-ups) on its own
// schedule: membership calls of two tasks queue behind each other and behind the engine's own steps
// (settlement, reset, open) on the engine lock.
func (w *tableWorld) churnTask() {
	c := w.c
	g := w.cfg
	st := c.St.Get("admin.churn")
	for c.NowMs() < g.faultEndMs && !c.Stopped() {
		simrt.Sleep(0, time.Duration([]int{50, 200, 600, 1500, 4000}[st.Draw(5)])*time.Millisecond)
		if c.NowMs() >= g.faultEndMs || c.Stopped() {
			break
		}
		tb := w.eng.GetTable()
		if tb == nil || len(tb.State.PlayerStates) == 0 {
			continue
		}
		parts := map[string]bool{}
		for _, id := range rosterOf(tb) {
			parts[id] = true
		}
		var ids, bystanders []string
		for _, p := range tb.State.PlayerStates {
			if !parts[p.PlayerID] {
				bystanders = append(bystanders, p.PlayerID)
			}
			if strings.HasPrefix(p.PlayerID, "z") {
				continue // never given chips: stays a bystander
			}
			ids = append(ids, p.PlayerID)
		}
		c.Fault("F5_churn")
		switch st.Pick(40, 60) {
		case 0:
			if g.leaves && len(bystanders) > 0 && len(ids) > 2 {
				if id := bystanders[st.Draw(len(bystanders))]; !strings.HasPrefix(id, "z") { // (kept for the hand-end task)
					w.doLeave([]string{id})
				}
			}
		case 1:
			if g.topups {
				w.doRedeem(ids[st.Draw(len(ids))], int64(1+st.Draw(int(w.unit)*10+1)))
			}
		}
	}
}

// handEndTask fires two membership calls from two tasks at the instant the last betting round has
// closed (F5 aimed at the settlement): a top-up whose listener may be slow, and the departure of a
// bystander a moment later.
func (w *tableWorld) handEndTask() {
	c := w.c
	g := w.cfg
	st := c.St.Get("admin.handend")
	for c.NowMs() < g.faultEndMs && !c.Stopped() {
		select {
		case <-w.handEndWake:
		case <-time.After(5 * time.Second):
			continue
		}
		if c.NowMs() >= g.faultEndMs || c.Stopped() {
			continue
		}
		tb := w.eng.GetTable()
		if tb == nil {
			continue
		}
		parts := map[string]bool{}
		for _, id := range rosterOf(tb) {
			parts[id] = true
		}
		var ids, bystanders []string
		for _, p := range tb.State.PlayerStates {
			if !parts[p.PlayerID] {
				bystanders = append(bystanders, p.PlayerID)
			}
			if strings.HasPrefix(p.PlayerID, "z") {
				continue // never given chips: stays a bystander
			}
			ids = append(ids, p.PlayerID)
		}
		if len(ids) == 0 {
			continue
		}
		c.Fault("F5_hand_end_intervention")
		c.Logf("HAND-END intervention: players=%v bystanders=%v", ids, bystanders)
		if g.topups {
			id := ids[st.Draw(len(ids))]
			amt := int64(1 + st.Draw(int(w.unit)*10+1))
			if st.Chance(2, 3) {
				w.forceSlowMs = int64(600 + st.Draw(1500)) // the top-up's own publication meets a slow subscriber: the lock stays taken
			}
			simrt.Go(0, "handend.topup", func() { w.doRedeem(id, amt) })
		}
		if g.leaves && len(bystanders) > 0 && len(ids) > 2 {
			id := bystanders[st.Draw(len(bystanders))]
			d := []int{0, 20, 350, 500}[st.Draw(4)]
			simrt.Go(0, "handend.leave", func() {
				if d > 0 {
					simrt.Sleep(0, time.Duration(d)*time.Millisecond)
				}
				w.doLeave([]string{id})
			})
		}
	}
}

// chaserTask places a close / release / pause inside the window in which a slow subscriber keeps the
// engine lock held (F5 aimed at F8): whatever the engine wanted to do meanwhile is queued behind
// that lock and resumes on a table that has been closed in between.
func (w *tableWorld) chaserTask() {
	c := w.c
	st := c.St.Get("admin.chaser")
	for c.NowMs() < w.cfg.faultEndMs && !c.Stopped() {
		var slow int64
		select {
		case slow = <-w.chaseWake:
		case <-time.After(5 * time.Second):
			continue
		}
		one := 8
		if w.focus("C07") {
			one = 3
		}
		if slow < 0 {
			slow = -slow
			one = 60
		}
		if !st.Chance(1, one) {
			continue
		}
		simrt.Sleep(0, time.Duration(1+st.Draw(int(slow)))*time.Millisecond)
		if c.Stopped() || w.closedAtMs != 0 || w.releasedAtMs != 0 {
			return
		}
		switch st.Pick(50, 30, 20) {
		case 0:
			c.Fault("F5_close")
			w.mon.adminEvent("close")
			w.eng.CloseTable()
			w.closedAtMs = c.NowMs()
			w.mon.adminEvent("closed")
			c.Logf("CLOSE (during a slow delivery)")
			return
		case 1:
			c.Fault("F5_release")
			w.mon.adminEvent("release")
			w.eng.ReleaseTable()
			w.releasedAtMs = c.NowMs()
			w.mon.adminEvent("released")
			c.Logf("RELEASE (during a slow delivery)")
			return
		case 2:
			c.Fault("F5_pause")
			w.pausedAtMs = c.NowMs()
			w.mon.adminEvent("pause")
			w.eng.PauseTable()
			c.Logf("PAUSE (during a slow delivery)")
		}
	}
}

// ---- deadline extensions (C15) ------------------------------------------------------------------

func (w *tableWorld) extenderTask() {
	c := w.c
	st := c.St.Get("client.extender")
	for c.NowMs() < w.cfg.horizonMs && !c.Stopped() {
		simrt.Sleep(0, time.Duration([]int{300, 1000, 2500, 6000}[st.Draw(4)])*time.Millisecond)
		if c.Stopped() {
			return
		}
		d := 1 + st.Draw(30)
		var before, after, ret int64
		var err error
		called := false
		var key string
		atomic := simrt.Atomic(func() {
			tb := w.eng.GetTable()
			if tb == nil || tb.State.GameState == nil || tb.State.CurrentActionEndAt == 0 || tb.State.Status != pt.TableStateStatus_TableGamePlaying {
				return
			}
			called = true
			before = tb.State.CurrentActionEndAt
			key = w.mon.turnKey(tb.State.GameState)
			id := "x"
			if r := rosterOf(tb); len(r) > 0 {
				id = r[st.Draw(len(r))]
			}
			ec := w.mon.extensionInvoke(key, int64(d))
			ret, err = w.eng.PlayerExtendActionDeadline(id, d)
			after = w.eng.GetTable().State.CurrentActionEndAt
			w.mon.extensionReturn(ec)
		})
		if !called {
			continue
		}
		c.Fault("F5_deadline_extension")
		c.Logf("EXTEND +%ds: %d -> returned %d, published %d (%v)", d, before, ret, after, err)
		if atomic {
			c.Judged("C15.extension")
			if err != nil || ret != before+int64(d) || after != ret {
				c.Viol("C15", "C15.extension_wrong", nil, "deadline %d extended by %ds: call returned %d (%v), table publishes %d", before, d, ret, err, after)
			}
		} else {
			c.Inconc("not_atomic")
		}
	}
}

// ---- auditor: polls the authoritative table at quiescent instants --------------------------------

func (w *tableWorld) auditor() {
	c := w.c
	for !c.Stopped() {
		simrt.Sleep(0, 250*time.Millisecond)
		if c.Stopped() {
			return
		}
		simrt.Atomic(func() { w.mon.audit() })
	}
}
