package sim

import (
	"encoding/json"
	"fmt"
	"os"
	"time"

	"github.com/weedbox/pokerface"
	pt "github.com/weedbox/pokertable"
	"github.com/weedbox/pokertable/actor"
	"verif.local/simrt"
)

// W-ACTOR: a table played by the repository's own actors (bot runners, player runners that never
// receive human input, observers). Every Adapter is wrapped by a recording proxy that logs each
// call with the simulated time and forwards it to the real engine. Decides C18, C19, C20.

type recCall struct {
	actor  string
	id     string
	action string
	amt    int64
	err    error
	atMs   int64
	viewAt int64 // gs.UpdatedAt of the view the actor held when it called
}

// recAdapter implements actor.Adapter on top of the real tableEngineAdapter.
type recAdapter struct {
	w      *actorWorld
	name   string
	kind   string // bot | runner | observer
	inner  actor.Adapter
	a      actor.Actor
	lastAt map[string]int64 // request key -> first delivery time
	status *int             // runner status mirror (0 running,1 idle,2 suspended)
}

func (r *recAdapter) SetActor(a actor.Actor) { r.a = a; r.inner.SetActor(a) }
func (r *recAdapter) UpdateTableState(t *pt.Table) error {
	return r.inner.UpdateTableState(t)
}
func (r *recAdapter) GetGamePlayerIndex(playerID string) int {
	return r.inner.GetGamePlayerIndex(playerID)
}
func (r *recAdapter) GetGameState() *pokerface.GameState { return r.inner.GetGameState() }
func (r *recAdapter) rec(id, action string, amt int64, f func() error) error {
	w := r.w
	var view int64
	if gs := r.inner.GetGameState(); gs != nil {
		view = gs.UpdatedAt
	}
	err := f()
	c := recCall{actor: r.name, id: id, action: action, amt: amt, err: err, atMs: w.c.NowMs(), viewAt: view}
	w.calls = append(w.calls, c)
	w.c.Logf("CALL %s(%s) %s %s %d -> %v", r.name, r.kind, id, action, amt, err)
	w.judgeCall(r, c)
	return err
}
func (r *recAdapter) Pass(id string) error {
	return r.rec(id, "pass", 0, func() error { return r.inner.Pass(id) })
}
func (r *recAdapter) Ready(id string) error {
	return r.rec(id, "ready", 0, func() error { return r.inner.Ready(id) })
}
func (r *recAdapter) Pay(id string, chips int64) error {
	return r.rec(id, "pay", chips, func() error { return r.inner.Pay(id, chips) })
}
func (r *recAdapter) Check(id string) error {
	return r.rec(id, "check", 0, func() error { return r.inner.Check(id) })
}
func (r *recAdapter) Bet(id string, chips int64) error {
	return r.rec(id, "bet", chips, func() error { return r.inner.Bet(id, chips) })
}
func (r *recAdapter) Call(id string) error {
	return r.rec(id, "call", 0, func() error { return r.inner.Call(id) })
}
func (r *recAdapter) Fold(id string) error {
	return r.rec(id, "fold", 0, func() error { return r.inner.Fold(id) })
}
func (r *recAdapter) Allin(id string) error {
	return r.rec(id, "allin", 0, func() error { return r.inner.Allin(id) })
}
func (r *recAdapter) Raise(id string, lvl int64) error {
	return r.rec(id, "raise", lvl, func() error { return r.inner.Raise(id, lvl) })
}
func (r *recAdapter) ExtendTime(id string, d time.Duration) error { return r.inner.ExtendTime(id, d) }

type actorEnt struct {
	name   string
	kind   string
	id     string
	ad     *recAdapter
	a      actor.Actor
	box    []*pt.Table
	wake   chan struct{}
	status int
	runner interface {
		Idle() error
		Suspend() error
		Resume() error
	}
	system bool
	// request bookkeeping (C18 / C19)
	reqKey           string
	reqAtMs          int64
	reqGS            *pokerface.GameState
	reqIdx           int
	reqSusp          bool
	answered         map[string]int
	lastObs          string
	delivered        bool
	staleRedelivered int
	syncDeliver      bool // observer wired as in actor/*_test.go: handed the table synchronously from the engine callback
	prevGS           *pokerface.GameState
	prevIdx          int
	prevAtMs         int64
	prevSusp         bool
}

type actorWorld struct {
	c               *Ctx
	eng             pt.TableEngine
	be              *latencyBackend
	ents            []*actorEnt
	calls           []recCall
	actionT         int
	opened, settled int
	lastOpenMs      int64
	lastSettleMs    int64
	settledGC       map[int]bool
	openedGC        map[int]bool
	extPause        bool
	botsOnly        bool
	obsCount        int64
	pubWake         chan struct{}
	lastPubKey      int64
}

func init() { RegisterWorld("actor", func() World { return &actorWorld{} }) }

func (w *actorWorld) Name() string { return "actor" }

// latencyBackend: the real backend with a small simulated latency, so that consecutive hand
// states carry distinct UpdatedAt stamps as they do on a real clock.
type latencyBackend struct {
	real *pt.NativeGameBackend
	st   *simrt.Stream
}

func (b *latencyBackend) lat() {
	simrt.Sleep(0, time.Duration(1+b.st.Draw(2000))*time.Microsecond)
}
func (b *latencyBackend) CreateGame(o *pokerface.GameOptions) (*pokerface.GameState, error) {
	b.lat()
	return b.real.CreateGame(o)
}
func (b *latencyBackend) ReadyForAll(gs *pokerface.GameState) (*pokerface.GameState, error) {
	b.lat()
	return b.real.ReadyForAll(gs)
}
func (b *latencyBackend) PayAnte(gs *pokerface.GameState) (*pokerface.GameState, error) {
	b.lat()
	return b.real.PayAnte(gs)
}
func (b *latencyBackend) PayBlinds(gs *pokerface.GameState) (*pokerface.GameState, error) {
	b.lat()
	return b.real.PayBlinds(gs)
}
func (b *latencyBackend) Next(gs *pokerface.GameState) (*pokerface.GameState, error) {
	b.lat()
	return b.real.Next(gs)
}
func (b *latencyBackend) Pay(gs *pokerface.GameState, c int64) (*pokerface.GameState, error) {
	b.lat()
	return b.real.Pay(gs, c)
}
func (b *latencyBackend) Fold(gs *pokerface.GameState) (*pokerface.GameState, error) {
	b.lat()
	return b.real.Fold(gs)
}
func (b *latencyBackend) Check(gs *pokerface.GameState) (*pokerface.GameState, error) {
	b.lat()
	return b.real.Check(gs)
}
func (b *latencyBackend) Call(gs *pokerface.GameState) (*pokerface.GameState, error) {
	b.lat()
	return b.real.Call(gs)
}
func (b *latencyBackend) Allin(gs *pokerface.GameState) (*pokerface.GameState, error) {
	b.lat()
	return b.real.Allin(gs)
}
func (b *latencyBackend) Bet(gs *pokerface.GameState, c int64) (*pokerface.GameState, error) {
	b.lat()
	return b.real.Bet(gs, c)
}
func (b *latencyBackend) Raise(gs *pokerface.GameState, c int64) (*pokerface.GameState, error) {
	b.lat()
	return b.real.Raise(gs, c)
}
func (b *latencyBackend) Pass(gs *pokerface.GameState) (*pokerface.GameState, error) {
	b.lat()
	return b.real.Pass(gs)
}

func (w *actorWorld) Run(c *Ctx) {
	w.c = c
	w.settledGC = map[int]bool{}
	w.openedGC = map[int]bool{}
	focus := c.Job.Property
	seats := 2 + c.CfgInt("seats", 0, 8)
	n := 2 + c.CfgInt("players", 0, 7)
	if n > seats {
		n = seats
	}
	w.actionT = []int{3, 1, 10, 0, 20}[c.CfgInt("action_time_i", 0, 4)]
	bb := []int64{20, 2, 100}[c.CfgInt("bb_i", 0, 2)]
	ante := int64(0)
	if c.CfgBool("ante_on", 1, 3) {
		ante = bb / 4
		if ante == 0 {
			ante = 1
		}
	}
	sb := bb / 2
	if c.CfgBool("no_sb", 1, 8) {
		sb = 0
	}
	dealerB := int64(0)
	if c.CfgBool("dealer_blind", 1, 8) {
		dealerB = bb / 2
	}
	mode := c.CfgPick("mode", []string{pt.CompetitionMode_MTT, pt.CompetitionMode_CT}, 60, 40)
	horizon := int64(40+c.CfgInt("horizon_s", 0, 200)) * 1000
	if c.Job.StopAtMs > 0 && c.Job.StopAtMs < horizon {
		horizon = c.Job.StopAtMs
	}
	// actor mix
	runnerShare := 0
	switch focus {
	case "C19":
		runnerShare = 60
	case "C18":
		runnerShare = 0
	default:
		runnerShare = []int{0, 30, 60}[c.CfgInt("runner_share_i", 0, 2)]
	}
	humanized := c.CfgBool("humanized", 1, 3)
	nObs := c.CfgInt("observers", 0, 3)
	if focus == "C20" && nObs == 0 {
		nObs = 1
	}
	w.extPause = focus == "C20" && c.CfgBool("mid_hand_pause_close", 1, 3)
	cs := c.St.Get("config")

	opts := pt.NewTableEngineOptions()
	opts.GameContinueInterval = []int{1, 0, 2}[c.CfgInt("interval_i", 0, 2)]
	w.be = &latencyBackend{real: pt.NewNativeGameBackend(), st: c.St.Get("net")}
	eng := pt.NewTableEngine(opts, pt.WithGameBackend(w.be))
	w.eng = eng
	eng.OnTableUpdated(func(t *pt.Table) { w.onUpdate(t) })
	eng.OnTableErrorUpdated(func(t *pt.Table, err error) { c.Logf("ERROR-EVENT %v", err) })
	eng.OnReadyOpenFirstTableGame(func(cid, tid string, gc int, ps []*pt.TablePlayerState) {
		parts := map[string]int{}
		for i, p := range ps {
			parts[p.PlayerID] = i
		}
		eng.SetUpTableGame(gc, parts)
	})
	tb, err := eng.CreateTable(pt.TableSetting{TableID: "t1",
		Meta:  pt.TableMeta{CompetitionID: "c1", Rule: pt.CompetitionRule_Default, Mode: mode, MaxDuration: 36000, TableMaxSeatCount: seats, TableMinPlayerCount: 2, MinChipUnit: 1, ActionTime: w.actionT},
		Blind: pt.TableBlindState{Level: 1, Ante: ante, Dealer: dealerB, SB: sb, BB: bb}})
	if err != nil {
		c.Res.Infra = append(c.Res.Infra, "CreateTable: "+err.Error())
		return
	}
	w.botsOnly = true
	for i := 0; i < n; i++ {
		id := fmt.Sprintf("a%d", i)
		e := &actorEnt{name: id, id: id, wake: make(chan struct{}, 1), answered: map[string]int{}}
		e.a = actor.NewActor()
		e.ad = &recAdapter{w: w, name: id, inner: actor.NewTableEngineAdapter(eng, tb), lastAt: map[string]int64{}}
		e.a.SetAdapter(e.ad)
		if cs.Draw(100) < runnerShare {
			e.kind = "runner"
			pr := actor.NewPlayerRunner(id)
			e.runner = pr
			e.a.SetRunner(pr)
			w.botsOnly = false
			switch cs.Pick(50, 25, 25) {
			case 1:
				pr.Idle()
				e.status = 1
			case 2:
				pr.Suspend()
				e.status = 2
			}
		} else {
			e.kind = "bot"
			bot := actor.NewBotRunner(id)
			bot.Humanized(humanized)
			bot.OnTableAutoJoinActionRequested(func(cid, tid, pid string) {
				err := eng.PlayerJoin(pid)
				c.Logf("BOT-JOIN %s -> %v", pid, err)
			})
			e.a.SetRunner(bot)
		}
		e.ad.kind = e.kind
		w.ents = append(w.ents, e)
	}
	for i := 0; i < nObs; i++ {
		e := &actorEnt{name: fmt.Sprintf("obs%d", i), kind: "observer", wake: make(chan struct{}, 1), answered: map[string]int{}}
		e.a = actor.NewActor()
		e.ad = &recAdapter{w: w, name: e.name, kind: "observer", inner: actor.NewTableEngineAdapter(eng, tb), lastAt: map[string]int64{}}
		e.a.SetAdapter(e.ad)
		ob := actor.NewObserverRunner()
		e.system = focus != "C20" && cs.Chance(1, 3)
		ob.EnabledSystemMode(e.system)
		e.syncDeliver = cs.Chance(1, 2)
		ee := e
		ob.OnTableStateUpdated(func(t *pt.Table) { w.onObserved(ee, t) })
		e.a.SetRunner(ob)
		w.ents = append(w.ents, e)
	}
	for _, e := range w.ents {
		ee := e
		simrt.Go(0, "actor."+e.name, func() { w.deliverLoop(ee) })
	}
	// buy-ins: stacks from one chip upwards
	for _, e := range w.ents {
		if e.kind == "observer" {
			continue
		}
		var chips int64
		switch cs.Pick(40, 20, 20, 20) {
		case 0:
			chips = bb*10 + int64(cs.Draw(int(bb)*40+1))
		case 1:
			chips = int64(1 + cs.Draw(int(bb)+2))
		case 2:
			chips = bb*2 + int64(cs.Draw(int(bb)*3+1))
		default:
			chips = bb * int64(20+cs.Draw(100))
		}
		err := eng.PlayerReserve(pt.JoinPlayer{PlayerID: e.id, RedeemChips: chips, Seat: -1})
		c.Logf("RESERVE %s %d -> %v", e.id, chips, err)
		if e.kind == "runner" {
			// a human player's client joins; bots join through their auto-join request
			c.Logf("JOIN %s -> %v", e.id, eng.PlayerJoin(e.id))
		}
	}
	if mode != pt.CompetitionMode_MTT {
		simrt.Sleep(0, 500*time.Millisecond)
		c.Logf("StartTableGame -> %v", eng.StartTableGame())
	}
	if w.extPause {
		simrt.Go(0, "admin", func() {
			st := c.St.Get("admin")
			simrt.Sleep(0, time.Duration(3000+st.Draw(30000))*time.Millisecond)
			for k := 0; k < 200 && !c.Stopped(); k++ {
				if t := eng.GetTable(); t != nil && t.State.GameState != nil && t.State.Status == pt.TableStateStatus_TableGamePlaying {
					break
				}
				simrt.Sleep(0, 100*time.Millisecond)
			}
			if st.Chance(1, 2) {
				c.Fault("F5_pause")
				c.Logf("PAUSE")
				eng.PauseTable()
			} else {
				c.Fault("F5_close")
				c.Logf("CLOSE")
				eng.CloseTable()
			}
		})
	}
	// concurrent publishers: deadline extensions and add-ons emit table updates from other goroutines
	// than the hand's updater
	w.pubWake = make(chan struct{}, 1)
	simrt.Go(0, "publisher", func() {
		st := c.St.Get("admin3")
		for c.NowMs() < horizon && !c.Stopped() {
			// either some time later, or right when the hand publishes something (so that two
			// publishers are inside the actors at the same instant)
			select {
			case <-w.pubWake:
			case <-time.After(time.Duration([]int{50, 200, 700, 2000}[st.Draw(4)]) * time.Millisecond):
			}
			t := eng.GetTable()
			if t == nil || len(t.State.PlayerStates) == 0 {
				continue
			}
			id := t.State.PlayerStates[st.Draw(len(t.State.PlayerStates))].PlayerID
			if st.Chance(1, 2) {
				eng.PlayerExtendActionDeadline(id, 1)
			} else {
				eng.PlayerRedeemChips(pt.JoinPlayer{PlayerID: id, RedeemChips: 1})
			}
			c.Fault("F5_concurrent_publisher")
		}
	})
	// status changes of player runners (running / idle / suspended)
	simrt.Go(0, "runner-status", func() {
		st := c.St.Get("admin2")
		for c.NowMs() < horizon && !c.Stopped() {
			simrt.Sleep(0, time.Duration(2000+st.Draw(15000))*time.Millisecond)
			var rs []*actorEnt
			for _, e := range w.ents {
				if e.kind == "runner" {
					rs = append(rs, e)
				}
			}
			if len(rs) == 0 {
				return
			}
			e := rs[st.Draw(len(rs))]
			switch st.Pick(40, 30, 30) {
			case 0:
				e.runner.Resume()
				e.status = 0
			case 1:
				e.runner.Suspend()
				e.status = 2
			case 2:
				// Idle() may escalate to suspended after the threshold
				e.runner.Idle()
				e.status = -1 // unknown: idle or suspended
			}
			c.Logf("RUNNER-STATUS %s -> %d", e.id, e.status)
		}
	})
	for c.NowMs() < horizon && !c.Stopped() {
		simrt.Sleep(0, 500*time.Millisecond)
	}
	if c.Stopped() {
		return
	}
	w.atHorizon(horizon)
	c.Stat("hands", int64(w.settled))
	c.Res.Summary = fmt.Sprintf("actors=%d opened=%d settled=%d calls=%d botsOnly=%v", len(w.ents), w.opened, w.settled, len(w.calls), w.botsOnly)
}

// onUpdate: engine callback. As in actor/*_test.go every actor is handed the table through its
// adapter, but on the actor's own task (the tests' synchronous call from inside the callback
// re-enters the engine and can self-deadlock on the engine lock).
func (w *actorWorld) onUpdate(t *pt.Table) {
	var snap *pt.Table
	simrt.Atomic(func() { snap = w.onUpdate1(t) })
	if snap == nil {
		return
	}
	// observers wired synchronously (exactly as the repository's tests do) are handed the table on
	// the emitting goroutine, so that concurrent publishers overlap inside one actor
	for _, e := range w.ents {
		if e.syncDeliver {
			e.ad.UpdateTableState(snap)
		}
	}
}

func (w *actorWorld) onUpdate1(t *pt.Table) *pt.Table {
	c := w.c
	snap := cloneTable(t)
	if snap == nil {
		return nil
	}
	st := snap.State
	ev := ""
	if st.GameState != nil {
		ev = st.GameState.Status.CurrentEvent + "/" + st.GameState.Status.Round
	}
	c.Logf("SNAP #%d %s gc=%d %s |%s", snap.UpdateSerial, st.Status, st.GameCount, ev, playerLine(snap))
	if st.Status == pt.TableStateStatus_TableGameOpened && st.GameState == nil && !w.openedGC[st.GameCount] {
		w.openedGC[st.GameCount] = true
		w.opened++
		w.lastOpenMs = c.NowMs()
	}
	if st.Status == pt.TableStateStatus_TableGameSettled && !w.settledGC[st.GameCount] {
		w.settledGC[st.GameCount] = true
		w.settled++
		w.lastSettleMs = c.NowMs()
	}
	if st.GameState != nil && w.pubWake != nil && st.GameState.UpdatedAt != w.lastPubKey {
		// only a new hand state wakes the publisher (its own emits re-publish the same hand state)
		w.lastPubKey = st.GameState.UpdatedAt
		select {
		case w.pubWake <- struct{}{}:
		default:
		}
	}
	for _, e := range w.ents {
		if e.syncDeliver {
			continue
		}
		e.box = append(e.box, snap)
		select {
		case e.wake <- struct{}{}:
		default:
		}
	}
	return snap
}

func (w *actorWorld) deliverLoop(e *actorEnt) {
	c := w.c
	net := c.St.Get("client." + e.name)
	var hist []*pt.Table
	for !c.Stopped() {
		if len(e.box) == 0 {
			select {
			case <-e.wake:
			case <-time.After(5 * time.Second):
			}
			continue
		}
		t := e.box[0]
		e.box = e.box[1:]
		if d := []int{0, 0, 1, 20, 150}[net.Draw(5)]; d > 0 {
			simrt.Sleep(0, time.Duration(d)*time.Millisecond)
		}
		w.deliver(e, t)
		// F1: the transport hands an old notification over again, late (a retried or re-ordered delivery):
		// possibly one of the previous hand, after the new hand has begun
		hist = append(hist, t)
		if len(hist) > 40 {
			hist = hist[1:]
		}
		if e.kind != "observer" && len(hist) > 3 && net.Chance(1, 25) {
			old := hist[net.Draw(len(hist)-1)]
			c.Fault("F1_stale_redelivery")
			e.staleRedelivered++
			w.deliverStale(e, old)
		}
	}
}

// deliverStale hands an old notification to the actor without making it the request the actor's
// calls are judged against: a runner must ignore it (its view is newer).
func (w *actorWorld) deliverStale(e *actorEnt, t *pt.Table) {
	simrt.Atomic(func() {
		cp := cloneTable(t)
		if cp != nil {
			e.ad.UpdateTableState(cp)
		}
	})
}

func (w *actorWorld) deliver(e *actorEnt, t *pt.Table) {
	// one atomic section: the harness itself calls instrumented helpers of the code under test
	// (GetJSON, GamePlayerIndex), whose scheduling points must not interleave other deliveries
	ok := simrt.Atomic(func() { w.deliver1(e, t) })
	if !ok {
		w.c.Inconc("delivery_not_atomic")
	}
	e.delivered = true
}

func (w *actorWorld) deliver1(e *actorEnt, t *pt.Table) {
	c := w.c
	// what is this actor being asked (judged against the state it is handed)
	if e.kind != "observer" && t.State.GameState != nil && t.State.Status == pt.TableStateStatus_TableGamePlaying {
		gs := t.State.GameState
		gi := t.GamePlayerIndex(e.id)
		if gi >= 0 && gi < len(gs.Players) && len(gs.Players[gi].AllowedActions) > 0 {
			key := fmt.Sprintf("%s|%d", gs.GameID, gs.UpdatedAt)
			if key != e.reqKey {
				e.prevGS, e.prevIdx, e.prevAtMs, e.prevSusp = e.reqGS, e.reqIdx, e.reqAtMs, e.reqSusp
				e.reqKey = key
				e.reqAtMs = c.NowMs()
				b, _ := json.Marshal(gs)
				var cp pokerface.GameState
				json.Unmarshal(b, &cp)
				e.reqGS = &cp
				e.reqIdx = gi
				e.reqSusp = e.status != 0
			}
		}
	}
	// C20 isolation: the value handed out, the other actors' views and (when the actor does not
	// act) the engine's own table must be unchanged by handing the table to this actor
	var before []string
	callsBefore := len(w.calls)
	if w.c.Job.Property == "C20" || w.c.Job.Property == "" {
		tj, _ := t.GetJSON()
		before = append(before, tj)
		for _, o := range w.ents {
			if o != e && o.delivered {
				b, _ := json.Marshal(o.ad.inner.GetGameState())
				before = append(before, string(b))
			}
		}
		ej, _ := w.eng.GetTable().GetJSON()
		before = append(before, ej)
	}
	cur := w.c.Sch.Cur()
	_ = cur
	if c.Job.DumpLog && os.Getenv("VERIF_DELIVER_TRACE") != "" {
		al := "-"
		if gs := t.State.GameState; gs != nil {
			if gi := t.GamePlayerIndex(e.id); gi >= 0 && gi < len(gs.Players) {
				al = fmt.Sprint(gs.Players[gi].AllowedActions, " upd=", gs.UpdatedAt)
			}
		}
		c.Logf("DELIVER to %s #%d %s allowed=%s", e.name, t.UpdateSerial, t.State.Status, al)
	}
	var err error
	func() {
		defer func() {
			if r := recover(); r != nil {
				if simrt.IsStopSignal(r) {
					panic(r)
				}
				prop := map[string]string{"bot": "C18", "player": "C19", "observer": "C20"}[e.kind]
				if prop == "" {
					prop = "C18"
				}
				ev := "no hand state"
				if t.State.GameState != nil {
					ev = t.State.GameState.Status.CurrentEvent
				}
				c.Viol(prop, prop+".runner_panicked", map[string]any{"actor_kind": e.kind, "hand_state_present": t.State.GameState != nil}, "%s (%s) panicked when it was handed the table (status %s, %s): %v - a crash of the notifying goroutine in a deployment", e.name, e.kind, t.State.Status, ev, r)
			}
		}()
		err = e.ad.UpdateTableState(t)
	}()
	_ = err
	atomic := !simrt.AtomicBroken()
	if before != nil && atomic {
		c.Judged("C20.isolation")
		tj, _ := t.GetJSON()
		after := []string{tj}
		for _, o := range w.ents {
			if o != e && o.delivered {
				b, _ := json.Marshal(o.ad.inner.GetGameState())
				after = append(after, string(b))
			}
		}
		ej, _ := w.eng.GetTable().GetJSON()
		after = append(after, ej)
		for i := range before {
			if i == len(before)-1 && (len(w.calls) != callsBefore || e.kind == "bot") {
				continue // the actor acted (or asked to join): the engine changes legitimately
			}
			if before[i] != after[i] {
				what := "another actor's view"
				if i == 0 {
					what = "the table value handed out by the engine callback"
				} else if i == len(before)-1 {
					what = "the engine's own table"
				}
				c.Viol("C20", "C20.actor_not_isolated", map[string]any{"changed": what, "actor_kind": e.kind}, "handing the table to %s (%s) changed %s: %s", e.name, e.kind, what, firstDiff(before[i], after[i]))
				break
			}
		}
	}
}

// onObserved: callback of an observer runner.
func (w *actorWorld) onObserved(e *actorEnt, t *pt.Table) {
	c := w.c
	w.obsCount++
	gs := t.State.GameState
	if !e.system && gs != nil {
		c.Judged("C20.observer_view")
		closed := gs.Status.CurrentEvent == "GameClosed"
		leak := ""
		if len(gs.Meta.Deck) > 0 {
			leak = "deck"
		} else if len(gs.Status.Burned) > 0 {
			leak = "burned cards"
		}
		for _, p := range gs.Players {
			if (!closed || p.Fold) && (len(p.HoleCards) > 0 || p.Combination != nil) && leak == "" {
				leak = fmt.Sprintf("hole cards / hand strength of entry %d (folded=%v)", p.Idx, p.Fold)
			}
		}
		if leak != "" {
			c.Viol("C20", "C20.observer_sees_hidden", map[string]any{"status": string(t.State.Status), "hand_closed": closed}, "non-system observer %s was shown the %s (table status %s, event %s)", e.name, leak, t.State.Status, gs.Status.CurrentEvent)
		}
		if closed {
			c.Probe("observer_saw_closed_hand")
		}
		if t.State.Status != pt.TableStateStatus_TableGamePlaying && t.State.Status != pt.TableStateStatus_TableGameSettled {
			c.Probe("observer_saw_hand_under_other_status")
		}
	}
	// scribble over the copy: nothing of it may be shared with anybody else
	t.State.Status = "scribbled"
	for _, p := range t.State.PlayerStates {
		p.Bankroll = -7
		p.Positions = append(p.Positions, "scribble")
	}
	if gs != nil {
		for _, p := range gs.Players {
			p.HoleCards = []string{"XX"}
			p.AllowedActions = nil
		}
		gs.Status.CurrentPlayer = 99
	}
}

// judgeCall: C18 (bots) and C19 (player runners).
func (w *actorWorld) judgeCall(r *recAdapter, cl recCall) {
	c := w.c
	var e *actorEnt
	for _, x := range w.ents {
		if x.ad == r {
			e = x
		}
	}
	if e == nil {
		return
	}
	if cl.id != e.id {
		c.Viol("C18", "C18.acted_for_someone_else", map[string]any{"kind": e.kind}, "%s %s submitted %s for %s", e.kind, e.id, cl.action, cl.id)
		return
	}
	gs, gi := e.reqGS, e.reqIdx
	if e.kind == "bot" {
		c.Judged("C18.bot_call")
		if cl.err != nil && !w.extPause {
			det := ""
			if gs != nil && gi < len(gs.Players) {
				p := gs.Players[gi]
				det = fmt.Sprintf("view: event %s round %s allowed %v stack %d initial %d wager %d; current wager %d min bet %d prev raise %d", gs.Status.CurrentEvent, gs.Status.Round, p.AllowedActions, p.StackSize, p.InitialStackSize, p.Wager, gs.Status.CurrentWager, gs.Status.MiniBet, gs.Status.PreviousRaiseSize)
			}
			c.Viol("C18", "C18.move_refused", map[string]any{"action": cl.action}, "bot %s submitted %s %d and the engine refused it: %v (%s)", e.id, cl.action, cl.amt, cl.err, det)
			return
		}
		e.answered[e.reqKey]++
		if e.answered[e.reqKey] > 1 {
			c.Viol("C18", "C18.several_moves_for_one_request", nil, "bot %s submitted %d actions for one request (last: %s)", e.id, e.answered[e.reqKey], cl.action)
		}
		return
	}
	if e.kind != "runner" {
		return
	}
	c.Judged("C19.runner_call")
	switch cl.action {
	case "pass", "ready", "check", "fold", "pay":
	default:
		c.Viol("C19", "C19.volunteered_chips", map[string]any{"action": cl.action}, "player runner %s (no human input) submitted %s %d", e.id, cl.action, cl.amt)
		return
	}
	// the call answers the request the runner holds now, or - when its timer fired while the next
	// request was being delivered - the previous one
	v1 := w.judgeRunner(e, cl, gs, gi, e.reqAtMs, e.reqSusp)
	if v1 == nil {
		return
	}
	if e.prevGS != nil {
		if v2 := w.judgeRunner(e, cl, e.prevGS, e.prevIdx, e.prevAtMs, e.prevSusp); v2 == nil {
			c.Probe("runner_answered_previous_request")
			return
		}
	}
	c.Viol("C19", v1.Oracle, v1.Facts, "%s", v1.Message)
}

func (w *actorWorld) judgeRunner(e *actorEnt, cl recCall, gs *pokerface.GameState, gi int, reqAt int64, susp bool) *Violation {
	if gs == nil || gi >= len(gs.Players) {
		return nil
	}
	p := gs.Players[gi]
	has := func(a string) bool { return hasStr(p.AllowedActions, a) }
	want := ""
	switch {
	case has("pass"):
		want = "pass"
	case has("ready"):
		want = "ready"
	case has("check"):
		want = "check"
	case has("fold"):
		want = "fold"
	case has("pay"):
		want = "pay"
	}
	if want != "" && cl.action != want {
		return &Violation{Oracle: "C19.wrong_priority", Facts: map[string]any{"did": cl.action, "want": want}, Message: fmt.Sprintf("player runner %s was asked with allowed actions %v and submitted %s (most conservative is %s)", e.id, p.AllowedActions, cl.action, want)}
	}
	if cl.action == "pay" {
		amt := gs.Meta.Ante
		if gs.Status.CurrentEvent == "BlindsRequested" {
			switch {
			case hasStr(p.Positions, "sb"):
				amt = gs.Meta.Blind.SB
			case hasStr(p.Positions, "bb"):
				amt = gs.Meta.Blind.BB
			default:
				amt = gs.Meta.Blind.Dealer
			}
		}
		if cl.amt != amt {
			return &Violation{Oracle: "C19.pay_amount", Facts: map[string]any{}, Message: fmt.Sprintf("player runner %s paid %d, the posted amount for its position is %d (event %s, positions %v)", e.id, cl.amt, amt, gs.Status.CurrentEvent, p.Positions)}
		}
	}
	if cl.action != "pass" && !susp && e.status == 0 {
		w.c.Judged("C19.waited_thinking_time")
		if cl.atMs < reqAt+int64(w.actionT)*1000 {
			return &Violation{Oracle: "C19.acted_before_thinking_time", Facts: map[string]any{}, Message: fmt.Sprintf("player runner %s (running, not suspended) was asked at %dms with action time %ds and acted (%s) at %dms", e.id, reqAt, w.actionT, cl.action, cl.atMs)}
		}
	}
	return nil
}

func (w *actorWorld) atHorizon(horizon int64) {
	c := w.c
	if !w.botsOnly || w.extPause {
		return
	}
	// C18: hands played entirely by bots reach settlement
	c.Judged("C18.bot_hands_settle")
	now := c.NowMs()
	if w.opened > w.settled && now-w.lastOpenMs > int64(3*17+8*w.actionT+20)*1000 {
		ev := ""
		if t := w.eng.GetTable(); t != nil && t.State.GameState != nil {
			ev = t.State.GameState.Status.CurrentEvent + "/" + t.State.GameState.Status.Round
		}
		c.Logf("LOCKS: %s", c.Sch.LockState())
		c.Viol("C18", "C18.bot_hand_not_settled", map[string]any{"stuck_at": ev}, "hand %d played by bots only opened at %dms and is not settled at %dms (stuck at %s)", w.opened, w.lastOpenMs, now, ev)
	}
	if w.opened == 0 && now > 40000 {
		c.Probe("no_hand_opened")
	}
}
