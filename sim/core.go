// Package sim holds the simulated worlds (workloads, environment, fault injection), the
// reference models and the monitors. Everything in non-test files of this package runs inside
// the synctest bubble under the simrt baton scheduler and is instrumented like the code under test
// (its plain statement sites are masked off; its blocking operations are real scheduling points).
package sim

import (
	"encoding/json"
	"fmt"
	"hash/fnv"
	"os"
	"sort"
	"strings"
	"time"

	"verif.local/simrt"
)

// Job is what the driver hands to a worker process.
type Job struct {
	World     string            `json:"world"`
	Property  string            `json:"property"` // focus property: biases the swarm and selects reported violations
	Tier      string            `json:"tier"`
	Seed      uint64            `json:"seed"`
	From      uint64            `json:"from"`
	To        uint64            `json:"to"`
	SiteFiles []string          `json:"site_files"`
	Out       string            `json:"out"`
	Replay    string            `json:"replay"` // replay file path ("" = generate)
	DumpLog   bool              `json:"dump_log"`
	KeepAll   bool              `json:"keep_all"` // keep streams of every run (determinism self-test)
	Override  map[string]string `json:"override"`
	StopAtMs  int64             `json:"stop_at_ms"` // truncate horizon (minimiser)
}

type Violation struct {
	Property string         `json:"property"`
	Oracle   string         `json:"oracle"`
	Facts    map[string]any `json:"facts"`
	Message  string         `json:"message"`
	AtMs     int64          `json:"at_ms"`
}

func (v Violation) Class() string {
	keys := make([]string, 0, len(v.Facts))
	for k := range v.Facts {
		keys = append(keys, k)
	}
	sort.Strings(keys)
	var sb strings.Builder
	sb.WriteString(v.Oracle)
	for _, k := range keys {
		fmt.Fprintf(&sb, "|%s=%v", k, v.Facts[k])
	}
	return sb.String()
}

type RunResult struct {
	World        string            `json:"world"`
	Seed         uint64            `json:"seed"`
	Run          uint64            `json:"run"`
	Config       map[string]any    `json:"config"`
	Override     map[string]string `json:"override,omitempty"` // the overrides in effect (a replay must carry them)
	Violations   []Violation       `json:"violations"`
	Stats        map[string]int64  `json:"stats"`
	Faults       map[string]int64  `json:"faults"`
	Judged       map[string]int64  `json:"judged"`
	Probes       map[string]int64  `json:"probes"`
	Inconclusive map[string]int64  `json:"inconclusive"`
	Fingerprint  string            `json:"fingerprint"`
	LogDigest    string            `json:"log_digest"`
	Streams      simrt.StreamsJSON `json:"streams,omitempty"`
	EventTail    []string          `json:"event_tail,omitempty"`
	Schedule     []string          `json:"schedule_summary,omitempty"`
	Panics       []simrt.PanicInfo `json:"panics,omitempty"`
	Infra        []string          `json:"infra,omitempty"`
	Summary      string            `json:"summary"`
	WallMs       int64             `json:"wall_ms"`
	SimMs        int64             `json:"sim_ms"`
	fullLog      []string
}

// Ctx is the per-run context shared by a world, its clients and its monitors.
type Ctx struct {
	Job      *Job
	St       *simrt.Streams
	Sch      *simrt.Sched
	Res      *RunResult
	Cfg      map[string]any
	logHash  uint64
	logN     int
	tail     []string
	full     []string
	swTail   []string
	stopOnV  bool
	epoch    time.Time
	seq      int64
	stopped  bool
	HorizonD time.Duration
	lastMs   int64
	tainted  bool
	capture  *[]CapturedViol
	capCount bool
}

const tailLen = 120

var traceLive = os.Getenv("VERIF_TRACE") != ""

func (c *Ctx) NowMs() int64 { return time.Since(c.epoch).Milliseconds() }

func (c *Ctx) Seq() int64 { c.seq++; return c.seq }

func (c *Ctx) Logf(f string, a ...any) {
	c.lastMs = c.NowMs()
	line := fmt.Sprintf("%7d ", c.lastMs) + fmt.Sprintf(f, a...)
	h := fnv.New64a()
	h.Write([]byte(line))
	c.logHash = c.logHash*1099511628211 ^ h.Sum64()
	c.logN++
	if traceLive {
		fmt.Fprintln(os.Stderr, line)
	}
	if c.Job.DumpLog {
		c.full = append(c.full, line)
	}
	c.tail = append(c.tail, line)
	if len(c.tail) > 2*tailLen {
		c.tail = append([]string(nil), c.tail[len(c.tail)-tailLen:]...)
	}
}

func (c *Ctx) Probe(name string) {
	if c.capture != nil && !c.capCount {
		return
	}
	c.Res.Probes[name]++
}
func (c *Ctx) Judged(name string) {
	if c.capture != nil && !c.capCount {
		return
	}
	c.Res.Judged[name]++
}

// CapturedViol is a violation held back by Capture.
type CapturedViol struct {
	Prop, Oracle string
	Facts        map[string]any
	Msg          string
}

// Capture runs f with violations held back instead of recorded: a verdict on a publication that
// may be superseded by a later publication of the same event (re-judged then, reported only if the
// last one still fails). count tells whether judged / probe counters are bumped by this evaluation.
func (c *Ctx) Capture(count bool, f func()) []CapturedViol {
	var got []CapturedViol
	c.capture, c.capCount = &got, count
	defer func() { c.capture = nil }()
	f()
	return got
}

func (c *Ctx) Emit(vs []CapturedViol) {
	for _, v := range vs {
		c.Viol(v.Prop, v.Oracle, v.Facts, "%s", v.Msg)
	}
}
func (c *Ctx) Fault(name string)  { c.Res.Faults[name]++ }
func (c *Ctx) Inconc(name string) { c.Res.Inconclusive[name]++ }
func (c *Ctx) Stat(name string, d int64) {
	c.Res.Stats[name] += d
}

// Viol records a violation. The first violation of the focus property stops the run.
func (c *Ctx) Viol(prop, oracle string, facts map[string]any, f string, a ...any) {
	if facts == nil {
		facts = map[string]any{}
	}
	msg := fmt.Sprintf(f, a...)
	if c.capture != nil {
		*c.capture = append(*c.capture, CapturedViol{prop, oracle, facts, msg})
		return
	}
	// keep at most 3 per oracle per run
	n := 0
	for _, v := range c.Res.Violations {
		if v.Oracle == oracle {
			n++
		}
	}
	if n >= 3 {
		return
	}
	c.tainted = true
	c.Logf("VIOLATION %s %s %v: %s", prop, oracle, facts, msg)
	c.Res.Violations = append(c.Res.Violations, Violation{Property: prop, Oracle: oracle, Facts: facts, Message: msg, AtMs: c.NowMs()})
	if c.Job.Property == "" || prop == c.Job.Property {
		if !c.stopped {
			c.stopped = true
			c.Sch.RequestStop()
		}
	}
}

func (c *Ctx) Stopped() bool { return c.stopped || c.Sch.Stopping() }

// Tainted: some monitor (of any property) reported a violation in this run; model-based worlds
// stop using the run because their model may no longer match the system.
func (c *Ctx) Tainted() bool { return c.tainted }

// Ov returns an override value (minimiser / probes can pin configuration values).
func (c *Ctx) Ov(key string) (string, bool) {
	v, ok := c.Job.Override[key]
	return v, ok
}

// Choice helpers ---------------------------------------------------------

// CfgInt draws a configuration integer in [lo,hi] from the config stream; lo is the simple choice.
func (c *Ctx) CfgInt(name string, lo, hi int) int {
	v := lo + c.St.Get("config").Draw(hi-lo+1)
	if s, ok := c.Ov(name); ok {
		fmt.Sscan(s, &v)
	}
	c.Cfg[name] = v
	return v
}

// CfgPick draws an index by weights.
func (c *Ctx) CfgPick(name string, labels []string, weights ...int) string {
	i := c.St.Get("config").Pick(weights...)
	v := labels[i]
	if s, ok := c.Ov(name); ok {
		v = s
	}
	c.Cfg[name] = v
	return v
}

func (c *Ctx) CfgBool(name string, num, den int) bool {
	v := c.St.Get("config").Chance(num, den)
	if s, ok := c.Ov(name); ok {
		v = s == "true" || s == "1"
	}
	c.Cfg[name] = v
	return v
}

// Sites -------------------------------------------------------------------

var siteTable []simrt.SiteInfo

func LoadSites(files []string) error {
	if siteTable != nil {
		return nil
	}
	var all []simrt.SiteInfo
	for _, f := range files {
		b, err := os.ReadFile(f)
		if err != nil {
			return err
		}
		var ss []simrt.SiteInfo
		if err := json.Unmarshal(b, &ss); err != nil {
			return err
		}
		all = append(all, ss...)
	}
	max := 0
	for _, s := range all {
		if s.ID > max {
			max = s.ID
		}
	}
	siteTable = make([]simrt.SiteInfo, max+1)
	for _, s := range all {
		siteTable[s.ID] = s
	}
	return nil
}

// BuildMask: mode "sync" = no statement yields; "all" = statements of the code under test and
// its dependencies; "pkg:a,b" = statements of the listed packages only. Harness (package sim)
// statement sites are always off.
func BuildMask(mode string) []bool {
	m := make([]bool, len(siteTable))
	pk := map[string]bool{}
	if strings.HasPrefix(mode, "pkg:") {
		for _, p := range strings.Split(strings.TrimPrefix(mode, "pkg:"), ",") {
			pk[p] = true
		}
	}
	for i, s := range siteTable {
		if s.Kind != "stmt" {
			m[i] = true
			continue
		}
		if s.Pkg == "sim" || s.Pkg == "pokerface" || s.Pkg == "pot" || s.Pkg == "settlement" || s.Pkg == "combination" || strings.HasPrefix(s.Pos, "manager.go:") {
			continue // the manager's forwarding code must not shift the schedule between the twin runs of C17
		}
		switch {
		case mode == "all":
			m[i] = true
		case len(pk) > 0:
			m[i] = pk[s.Pkg]
		}
	}
	return m
}

func siteDesc(id int) string {
	if id <= 0 || id >= len(siteTable) {
		return "?"
	}
	s := siteTable[id]
	return fmt.Sprintf("%s(%s %s)", s.Fn, s.Pos, s.Kind)
}
