package sim

import (
	"fmt"
	"sort"
	"strings"
	"sync"
	"time"

	"github.com/anishathalye/porcupine"
	pt "github.com/weedbox/pokertable"
	"verif.local/simrt"
)

// W-MEMB: many caller tasks issue reservations (fixed / random seat), departures and batch
// updates on one engine at the same simulated instant, statement-level scheduling everywhere.
// The recorded history is checked for linearizability against a sequential seat-table model
// (porcupine), then the bookkeeping invariants of C03 are checked. Decides the membership
// clause of C16.

type membIn struct {
	Kind   string // reserve | leave | update | read
	ID     string
	Seat   int
	Joins  []string
	Leaves []string
}

type membOut struct {
	Err   bool
	Seats map[string]int // reserve/update: seat of every player named in the call (after it); read: whole table
}

type membState struct {
	n     int
	seats string // canonical "seat:id,seat:id"
}

func parseSeats(s string) map[int]string {
	m := map[int]string{}
	if s == "" {
		return m
	}
	for _, kv := range strings.Split(s, ",") {
		var seat int
		var id string
		fmt.Sscanf(strings.Replace(kv, ":", " ", 1), "%d %s", &seat, &id)
		m[seat] = id
	}
	return m
}

func fmtSeats(m map[int]string) string {
	keys := make([]int, 0, len(m))
	for k := range m {
		keys = append(keys, k)
	}
	sort.Ints(keys)
	parts := make([]string, 0, len(keys))
	for _, k := range keys {
		parts = append(parts, fmt.Sprintf("%d:%s", k, m[k]))
	}
	return strings.Join(parts, ",")
}

func seatOfID(m map[int]string, id string) int {
	for s, x := range m {
		if x == id {
			return s
		}
	}
	return -1
}

// membStep is the sequential specification (from the statements of C03 / C16): a seat holds at
// most one player, a player at most one seat, capacity n, all-or-nothing on error.
func membStep(st membState, in membIn, out membOut) (bool, membState) {
	m := parseSeats(st.seats)
	switch in.Kind {
	case "read":
		want := map[string]int{}
		for s, id := range m {
			want[id] = s
		}
		if len(want) != len(out.Seats) {
			return false, st
		}
		for id, s := range want {
			if out.Seats[id] != s {
				return false, st
			}
		}
		return true, st
	case "reserve":
		if seatOfID(m, in.ID) >= 0 { // re-buy of a seated player: always fine, no seat change
			return !out.Err, st
		}
		valid := len(m) < st.n
		if in.Seat >= 0 {
			_, taken := m[in.Seat]
			valid = valid && in.Seat < st.n && !taken
		}
		if out.Err {
			return !valid, st
		}
		if !valid {
			return false, st
		}
		seat, ok := out.Seats[in.ID]
		if !ok || seat < 0 || seat >= st.n {
			return false, st
		}
		if _, taken := m[seat]; taken {
			return false, st
		}
		if in.Seat >= 0 && seat != in.Seat {
			return false, st
		}
		m[seat] = in.ID
		return true, membState{st.n, fmtSeats(m)}
	case "leave":
		valid := true
		for _, id := range in.Leaves {
			if seatOfID(m, id) < 0 {
				valid = false
			}
		}
		if out.Err {
			return !valid, st
		}
		if !valid {
			return false, st
		}
		for _, id := range in.Leaves {
			delete(m, seatOfID(m, id))
		}
		return true, membState{st.n, fmtSeats(m)}
	case "update": // joins only (random seats)
		valid := len(m)+len(in.Joins) <= st.n
		for _, id := range in.Joins {
			if seatOfID(m, id) >= 0 {
				valid = false
			}
		}
		if out.Err {
			return !valid, st
		}
		if !valid {
			return false, st
		}
		for _, id := range in.Joins {
			seat, ok := out.Seats[id]
			if !ok || seat < 0 || seat >= st.n {
				return false, st
			}
			if _, taken := m[seat]; taken {
				return false, st
			}
			m[seat] = id
		}
		return true, membState{st.n, fmtSeats(m)}
	}
	return false, st
}

type membWorld struct{}

func init() { RegisterWorld("memb", func() World { return &membWorld{} }) }

func (w *membWorld) Name() string { return "memb" }

func (w *membWorld) Run(c *Ctx) {
	n := c.CfgInt("seats", 2, 10)
	nTasks := 2 + c.CfgInt("tasks", 0, 14)
	opsPer := 1 + c.CfgInt("ops_per_task", 0, 3)
	if nTasks*opsPer > 36 {
		opsPer = 36 / nTasks
		if opsPer < 1 {
			opsPer = 1
		}
	}
	mode := c.CfgPick("mode", []string{pt.CompetitionMode_CT, pt.CompetitionMode_MTT}, 70, 30)
	opts := pt.NewTableEngineOptions()
	eng := pt.NewTableEngine(opts, pt.WithGameBackend(pt.NewNativeGameBackend()))
	mon := &tableMon{c: c, hands: map[int]*handRec{}, gameIDs: map[string]int{}, missedHands: map[string]int{}, everDealt: map[string]bool{}, seatedAtGC: map[string]int{}, reserved: map[string]int{}}
	mon.w = &tableWorld{c: c, eng: eng}
	eng.OnTableUpdated(func(t *pt.Table) {
		simrt.Atomic(func() {
			if s := cloneTable(t); s != nil {
				mon.tableInvariants(s, "snapshot")
			}
		})
	})
	eng.OnReadyOpenFirstTableGame(func(cid, tid string, gc int, ps []*pt.TablePlayerState) {})
	// the reserved callback runs on the caller's task inside PlayerReserve: the seat it reports is the
	// one this very call produced
	reservedBy := map[int]map[string]int{}
	eng.OnTablePlayerReserved(func(cid, tid string, ps *pt.TablePlayerState) {
		t := simrt.CurID()
		if reservedBy[t] == nil {
			reservedBy[t] = map[string]int{}
		}
		reservedBy[t][ps.PlayerID] = ps.Seat
	})
	_, err := eng.CreateTable(pt.TableSetting{TableID: "t1",
		Meta:  pt.TableMeta{CompetitionID: "c1", Rule: pt.CompetitionRule_Default, Mode: mode, MaxDuration: 36000, TableMaxSeatCount: n, TableMinPlayerCount: 2, MinChipUnit: 1, ActionTime: 10},
		Blind: pt.TableBlindState{Level: 0, Ante: 0, Dealer: 0, SB: 10, BB: 20}}) // blinds unset: no hand opens during the membership storm
	if err != nil {
		c.Res.Infra = append(c.Res.Infra, "CreateTable: "+err.Error())
		return
	}
	// a few players seated up front (sequentially)
	pool := []string{}
	for i := 0; i < 14; i++ {
		pool = append(pool, fmt.Sprintf("p%d", i))
	}
	st := c.St.Get("admin")
	pre := st.Draw(n)
	for i := 0; i < pre; i++ {
		eng.PlayerReserve(pt.JoinPlayer{PlayerID: pool[i], RedeemChips: 100, Seat: -1})
	}
	readSeats := func() map[string]int {
		out := map[string]int{}
		for _, p := range eng.GetTable().State.PlayerStates {
			out[p.PlayerID] = p.Seat
		}
		return out
	}
	init0 := map[int]string{}
	for id, s := range readSeats() {
		init0[s] = id
	}
	var mu sync.Mutex
	var ops []porcupine.Operation
	record := func(client int, in membIn, call int64, out membOut, ret int64) {
		mu.Lock()
		ops = append(ops, porcupine.Operation{ClientId: client, Input: in, Call: call, Output: out, Return: ret})
		mu.Unlock()
	}
	var wg sync.WaitGroup
	for t := 0; t < nTasks; t++ {
		cs := c.St.Get(fmt.Sprintf("client.m%d", t))
		wg.Add(1)
		simrt.Go(0, fmt.Sprintf("caller%d", t), func() {
			defer wg.Done()
			for k := 0; k < opsPer && !c.Stopped(); k++ {
				if cs.Chance(1, 4) {
					simrt.Sleep(0, time.Duration(cs.Draw(3))*time.Millisecond)
				}
				var in membIn
				var out membOut
				id := pool[cs.Draw(len(pool))]
				call := c.Seq()
				switch cs.Pick(45, 25, 20, 10) {
				case 0:
					seat := -1
					if cs.Chance(1, 2) {
						seat = cs.Draw(n)
					}
					in = membIn{Kind: "reserve", ID: id, Seat: seat}
					delete(reservedBy[simrt.CurID()], id)
					err := eng.PlayerReserve(pt.JoinPlayer{PlayerID: id, RedeemChips: 100, Seat: seat})
					out.Err = err != nil
				case 1:
					ids := []string{id}
					if cs.Chance(1, 4) {
						ids = append(ids, pool[cs.Draw(len(pool))])
						if ids[1] == ids[0] {
							ids = ids[:1]
						}
					}
					in = membIn{Kind: "leave", Leaves: ids}
					err := eng.PlayersLeave(ids)
					out.Err = err != nil
				case 2:
					ids := []string{id}
					if cs.Chance(1, 3) {
						x := pool[cs.Draw(len(pool))]
						if x != id {
							ids = append(ids, x)
						}
					}
					var jps []pt.JoinPlayer
					for _, x := range ids {
						jps = append(jps, pt.JoinPlayer{PlayerID: x, RedeemChips: 100, Seat: -1})
					}
					in = membIn{Kind: "update", Joins: ids}
					seats, err := eng.UpdateTablePlayers(jps, nil)
					out.Err = err != nil
					if err == nil {
						out.Seats = map[string]int{}
						for _, x := range ids {
							out.Seats[x] = seats[x]
						}
					}
				default:
					in = membIn{Kind: "leave", Leaves: []string{"ghost"}}
					out.Err = eng.PlayersLeave([]string{"ghost"}) != nil
				}
				if in.Kind == "reserve" && !out.Err {
					// the seat the player holds right after the call (a concurrent departure of the same
					// player makes this unobservable: then the reservation is recorded without a seat and
					// the model accepts any free seat)
					out.Seats = map[string]int{}
					if s, ok := reservedBy[simrt.CurID()][id]; ok {
						out.Seats[id] = s
					}
				}
				record(t, in, call, out, c.Seq())
				c.Logf("OP %d %+v -> %+v", t, in, out)
			}
		})
	}
	done := make(chan struct{})
	simrt.Go(0, "joiner", func() { wg.Wait(); close(done) })
	select {
	case <-done:
	case <-time.After(120 * time.Second):
		c.Probe("caller_stuck")
		return
	}
	if c.Stopped() {
		return
	}
	// final read
	call := c.Seq()
	final := readSeats()
	record(nTasks, membIn{Kind: "read"}, call, membOut{Seats: final}, c.Seq())
	c.Logf("FINAL %v", final)
	// invariants afterwards (C03 via C16)
	tb := cloneTable(eng.GetTable())
	c.Judged("C16.membership_history")
	okInv := true
	simrt.Atomic(func() {
		okInv = mon.tableInvariants(tb, "after concurrent membership operations")
		if bad := mon.checkSMAgreement(eng.GetTable(), "after concurrent membership operations", false); bad != "" {
			okInv = false
			c.Viol("C16", "C16.bookkeeping_broken", map[string]any{"part": "seat_manager"}, "after %d concurrent membership operations: %s", len(ops)-1, bad)
		}
	})
	if !okInv {
		// tableInvariants reported under C03; mirror it for C16
		c.Viol("C16", "C16.bookkeeping_broken", map[string]any{"part": "table"}, "after %d concurrent membership operations the table's seat bookkeeping is inconsistent (see the C03 violation of this run)", len(ops)-1)
		return
	}
	model := porcupine.Model{
		Init: func() interface{} { return membState{n, fmtSeats(init0)} },
		Step: func(state, input, output interface{}) (bool, interface{}) {
			in := input.(membIn)
			out := output.(membOut)
			st := state.(membState)
			if in.Kind == "reserve" && !out.Err && len(out.Seats) == 0 && seatOfID(parseSeats(st.seats), in.ID) < 0 {
				// seat unobserved: try every free seat? keep it simple and sound: accept if any seat is free
				m := parseSeats(st.seats)
				if len(m) >= st.n {
					return false, st
				}
				return true, membState{-1, ""} // poisoned state: everything after is accepted
			}
			if st.n == -1 {
				return true, st
			}
			ok, ns := membStep(st, in, out)
			return ok, ns
		},
		Equal: func(a, b interface{}) bool { return a.(membState) == b.(membState) },
		DescribeOperation: func(input, output interface{}) string {
			return fmt.Sprintf("%+v -> %+v", input, output)
		},
	}
	res := porcupine.CheckOperationsTimeout(model, ops, 20*time.Second)
	switch res {
	case porcupine.Illegal:
		var sb strings.Builder
		sort.Slice(ops, func(i, j int) bool { return ops[i].Call < ops[j].Call })
		for _, o := range ops {
			fmt.Fprintf(&sb, "[%d..%d] c%d %+v -> %+v; ", o.Call, o.Return, o.ClientId, o.Input, o.Output)
		}
		c.Viol("C16", "C16.not_linearizable", map[string]any{"parked_in": strings.Join(c.Sch.ParkedIn(), ",")}, "history of %d concurrent membership operations on a %d-seat table (initially %s) has no one-at-a-time explanation: %s", len(ops), n, fmtSeats(init0), sb.String())
	case porcupine.Unknown:
		c.Inconc("porcupine_unknown")
	default:
		c.Probe("history_linearizable")
	}
	c.Res.Summary = fmt.Sprintf("seats=%d tasks=%d ops=%d", n, nTasks, len(ops))
}
