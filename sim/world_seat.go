package sim

import (
	"fmt"
	"sort"
	"sync"

	sm "github.com/weedbox/pokertable/seat_manager"
	"verif.local/simrt"
)

// W-SEAT: the seat manager alone. Decides C04 (dead-button rule) against a reference model
// written from the property statement, the seat-manager part of C03 (exclusive, all-or-nothing
// seat bookkeeping) and the seat-manager clause of C16 (concurrent assignments never double-book).

type mSeat struct {
	id       string
	isIn     bool
	hasChips bool
	between  bool
}

type mSeats struct {
	n        int
	rule     string
	seats    []*mSeat
	d, sb, b int
	isInit   bool
}

func (m *mSeats) clone() *mSeats {
	c := *m
	c.seats = make([]*mSeat, len(m.seats))
	for i, s := range m.seats {
		if s != nil {
			cp := *s
			c.seats[i] = &cp
		}
	}
	return &c
}

func live(s *mSeat) bool   { return s != nil && s.isIn && s.hasChips }
func active(s *mSeat) bool { return live(s) && !s.between }

func (m *mSeats) count(f func(*mSeat) bool) int {
	k := 0
	for _, s := range m.seats {
		if f(s) {
			k++
		}
	}
	return k
}

func (m *mSeats) find(id string) int {
	for i, s := range m.seats {
		if s != nil && s.id == id {
			return i
		}
	}
	return -1
}

// nextCW returns the first seat strictly after `from` (clockwise) satisfying f, or -1.
func (m *mSeats) nextCW(from int, f func(*mSeat) bool) int {
	for i := 1; i <= m.n; i++ {
		s := (from + i) % m.n
		if f(m.seats[s]) {
			return s
		}
	}
	return -1
}

func (m *mSeats) prevCCW(from int, f func(*mSeat) bool) int {
	for i := 1; i <= m.n; i++ {
		s := ((from-i)%m.n + m.n) % m.n
		if f(m.seats[s]) {
			return s
		}
	}
	return -1
}

// strictly between dealer and bb going clockwise
func (m *mSeats) strictlyBetween(d, b, t int) bool {
	if d < 0 || b < 0 {
		return false
	}
	for s := (d + 1) % m.n; s != b; s = (s + 1) % m.n {
		if s == t {
			return true
		}
		if s == d {
			break
		}
	}
	return false
}

func snapshotSM(real sm.SeatManager, n int, rule string) *mSeats {
	m := &mSeats{n: n, rule: rule, seats: make([]*mSeat, n), d: real.CurrentDealerSeatID(), sb: real.CurrentSBSeatID(), b: real.CurrentBBSeatID(), isInit: real.IsInitPositions()}
	for k, sp := range real.Seats() {
		if k < 0 || k >= n {
			continue
		}
		if sp != nil {
			m.seats[k] = &mSeat{id: sp.ID, isIn: sp.IsIn, hasChips: sp.HasChips, between: sp.IsBetweenDealerBB}
		}
	}
	return m
}

func (m *mSeats) String() string {
	s := fmt.Sprintf("n=%d rule=%s D%d/SB%d/BB%d init=%v [", m.n, m.rule, m.d, m.sb, m.b, m.isInit)
	for i, p := range m.seats {
		if p == nil {
			continue
		}
		f := ""
		if p.isIn {
			f += "i"
		}
		if p.hasChips {
			f += "c"
		}
		if p.between {
			f += "w"
		}
		s += fmt.Sprintf(" %d:%s(%s)", i, p.id, f)
	}
	return s + " ]"
}

// seatInvariants: structural part of C03 at seat-manager level.
func seatInvariants(c *Ctx, real sm.SeatManager, n int, where string) bool {
	seen := map[string]int{}
	keys := make([]int, 0)
	for k := range real.Seats() {
		keys = append(keys, k)
	}
	sort.Ints(keys)
	for _, k := range keys {
		sp := real.Seats()[k]
		if k < 0 || k >= n {
			if sp != nil {
				c.Viol("C03", "C03.sm_seat_out_of_range", map[string]any{"op": where}, "seat manager holds player %s in seat %d outside 0..%d after %s", sp.ID, k, n-1, where)
				return false
			}
			continue
		}
		if sp == nil {
			continue
		}
		if prev, dup := seen[sp.ID]; dup {
			c.Viol("C03", "C03.sm_player_two_seats", map[string]any{"op": where}, "player %s holds seats %d and %d after %s", sp.ID, prev, k, where)
			return false
		}
		seen[sp.ID] = k
	}
	return true
}

// checkRotation judges one InitPositions/RotatePositions call against the statement of C04.
func checkRotation(c *Ctx, pre, post *mSeats, op string, err error) {
	facts := func(extra map[string]any) map[string]any {
		f := map[string]any{"op": op, "rule": pre.rule}
		for k, v := range extra {
			f[k] = v
		}
		return f
	}
	liveN := pre.count(live)
	moved := pre.d != post.d || pre.sb != post.sb || pre.b != post.b
	c.Judged("C04." + op)
	if op == "init" {
		actN := pre.count(active)
		mustRefuse := pre.isInit || actN < 2
		if err != nil {
			if moved {
				c.Viol("C04", "C04.refused_but_moved", facts(nil), "refused %s moved the button seats: %v -> %v", op, pre, post)
			} else if !mustRefuse {
				c.Viol("C04", "C04.refused_with_two_live", facts(nil), "InitPositions refused (%v) although %d players are seated-in with chips: %v", err, actN, pre)
			}
			return
		}
		if mustRefuse {
			c.Viol("C04", "C04.accepted_without_two_live", facts(nil), "InitPositions succeeded with %d eligible players (already init=%v): %v", actN, pre.isInit, pre)
			return
		}
		dealt := post.count(active)
		if pre.rule == sm.Rule_ShortDeck {
			if post.d < 0 || post.d >= post.n || !active(post.seats[post.d]) {
				c.Viol("C04", "C04.dealer_not_dealt_in", facts(nil), "short deck init: dealer seat %d holds no dealt-in player: %v", post.d, post)
			}
			return
		}
		if post.b < 0 || post.b >= post.n || !active(post.seats[post.b]) {
			c.Viol("C04", "C04.bb_not_dealt_in", facts(nil), "init: BB seat %d holds no dealt-in player: %v", post.b, post)
			return
		}
		if dealt == 2 {
			other := post.nextCW(post.b, active)
			if post.d != other || post.sb != other {
				c.Viol("C04", "C04.headsup_dealer_sb", facts(nil), "init heads-up: dealer/SB must be the other player (seat %d): %v", other, post)
			}
		} else {
			wantSB := post.prevCCW(post.b, active)
			wantD := post.prevCCW(wantSB, active)
			if post.sb != wantSB || post.d != wantD || post.d == post.sb || post.sb == post.b || post.d == post.b {
				c.Viol("C04", "C04.init_order", facts(nil), "init with %d dealt in: want D%d/SB%d before BB%d, got %v", dealt, wantD, wantSB, post.b, post)
			}
		}
		return
	}
	// rotate
	mustRefuse := !pre.isInit
	if pre.rule == sm.Rule_ShortDeck {
		mustRefuse = mustRefuse || pre.count(active) < 2
	} else {
		mustRefuse = mustRefuse || liveN < 2
	}
	if err != nil {
		if moved {
			c.Viol("C04", "C04.refused_but_moved", facts(nil), "refused rotation moved the button seats: %v -> %v", pre, post)
		} else if !mustRefuse {
			// discriminating circumstance: the only thing that keeps live players out is the waiting flag
			blocked := post.count(active) < 2 && post.count(func(s *mSeat) bool { return live(s) && s.between }) >= liveN-post.count(active)
			c.Viol("C04", "C04.refused_with_two_live", facts(map[string]any{"blocked_by_waiting_flag": blocked}), "RotatePositions refused (%v) although %d seated-in players have chips: %v", err, liveN, pre)
		} else {
			c.Probe("rotation_legitimately_refused")
		}
		return
	}
	if mustRefuse {
		c.Viol("C04", "C04.accepted_without_two_live", facts(nil), "RotatePositions succeeded with %d seated-in players with chips (init=%v): %v", liveN, pre.isInit, pre)
		return
	}
	if pre.rule == sm.Rule_ShortDeck {
		want := pre.nextCW(pre.d, active)
		if post.d != want {
			c.Viol("C04", "C04.shortdeck_dealer", facts(nil), "short deck: dealer must pass from %d to the next dealt-in seat %d, got %d: %v", pre.d, want, post.d, post)
		}
		return
	}
	wantBB := pre.nextCW(pre.b, live)
	if post.b != wantBB {
		c.Viol("C04", "C04.bb_wrong", facts(map[string]any{"unchanged": post.b == pre.b}), "BB must move from seat %d to the next seated-in player with chips at seat %d, got %d: pre %v post %v", pre.b, wantBB, post.b, pre, post)
		return
	}
	if !active(post.seats[post.b]) {
		c.Viol("C04", "C04.bb_not_dealt_in", facts(nil), "BB seat %d holds no dealt-in player: %v", post.b, post)
		return
	}
	dealt := post.count(active)
	switch {
	case dealt < 2:
		c.Viol("C04", "C04.too_few_dealt_in", facts(nil), "rotation succeeded but only %d players are dealt in: %v", dealt, post)
	case dealt == 2:
		other := post.nextCW(post.b, active)
		if post.d != other || post.sb != other {
			c.Viol("C04", "C04.headsup_dealer_sb", facts(nil), "heads-up: dealer and SB must be the other player (seat %d): pre %v post %v", other, pre, post)
		}
		c.Probe("rotation_to_headsup")
	default:
		wasHU := pre.d == pre.sb
		if post.sb != pre.b {
			c.Viol("C04", "C04.sb_not_prev_bb", facts(nil), "SB seat must be the previous BB seat %d, got %d: pre %v post %v", pre.b, post.sb, pre, post)
			return
		}
		wantD := pre.sb
		if wasHU {
			wantD = post.prevCCW(post.sb, live)
			c.Probe("rotation_hu_to_ring")
		}
		if post.d != wantD {
			c.Viol("C04", "C04.dealer_wrong", facts(map[string]any{"from_headsup": wasHU}), "dealer seat must be %d (previous SB%s), got %d: pre %v post %v", wantD, map[bool]string{true: "; nearest live seat before SB after heads-up", false: ""}[wasHU], post.d, pre, post)
			return
		}
		if post.d == post.sb || post.sb == post.b || post.d == post.b {
			which := "d=sb"
			if post.d == post.b {
				which = "d=bb"
			} else if post.sb == post.b {
				which = "sb=bb"
			}
			c.Viol("C04", "C04.seats_not_distinct", facts(map[string]any{"from_headsup": wasHU, "which": which, "bb_lands_on_prev_sb_seat": post.b == pre.sb}), "dealer/SB/BB must be three distinct seats with %d dealt in: pre %v post %v", dealt, pre, post)
			return
		}
		if !live(post.seats[post.d]) {
			c.Probe("dead_button")
		}
		if !live(post.seats[post.sb]) {
			c.Probe("dead_small_blind")
		}
	}
}

type seatWorld struct{}

func init() { RegisterWorld("seat", func() World { return &seatWorld{} }) }

func (w *seatWorld) Name() string { return "seat" }

func (w *seatWorld) Run(c *Ctx) {
	n := c.CfgInt("seats", 2, 10)
	if c.CfgBool("nine_seats", 1, 5) {
		n = 9
		c.Cfg["seats"] = 9
	}
	rule := c.CfgPick("rule", []string{sm.Rule_Default, sm.Rule_ShortDeck}, 85, 15)
	real := sm.NewSeatManager(n, rule)
	model := &mSeats{n: n, rule: rule, seats: make([]*mSeat, n), d: -1, sb: -1, b: -1}
	st := c.St.Get("admin")
	nOps := 10 + c.CfgInt("seat_ops", 0, 70)
	pool := make([]string, 0, 14)
	for i := 0; i < 14; i++ {
		pool = append(pool, fmt.Sprintf("p%d", i))
	}
	absent := func() []string {
		var out []string
		for _, id := range pool {
			if model.find(id) < 0 {
				out = append(out, id)
			}
		}
		return out
	}
	present := func() []string {
		var out []string
		for _, s := range model.seats {
			if s != nil {
				out = append(out, s.id)
			}
		}
		return out
	}
	pick := func(l []string) string { return l[st.Draw(len(l))] }
	compare := func(op string) bool {
		got := snapshotSM(real, n, rule)
		for i := 0; i < n; i++ {
			a, b := model.seats[i], got.seats[i]
			if (a == nil) != (b == nil) || (a != nil && (a.id != b.id || a.isIn != b.isIn || a.hasChips != b.hasChips)) {
				c.Viol("C03", "C03.sm_state_mismatch", map[string]any{"op": op}, "after %s the seat manager shows %v, expected %v", op, got, model)
				return false
			}
		}
		return seatInvariants(c, real, n, op)
	}
	rotations := 0
	for k := 0; k < nOps && !c.Stopped() && !c.Tainted(); k++ {
		simrt.ForceYield()
		kind := st.Pick(10, 14, 12, 18, 10, 8, 28)
		// bias: initialise early once two players are in
		if !model.isInit && model.count(active) >= 2 && st.Chance(1, 2) {
			kind = 6
		}
		switch kind {
		case 0: // AssignSeats (possibly invalid)
			req := map[string]int{}
			valid := true
			cnt := 1 + st.Draw(3)
			usedSeat := map[int]bool{}
			for i := 0; i < cnt; i++ {
				var id string
				ab := absent()
				if len(ab) == 0 || st.Chance(1, 8) {
					pr := present()
					if len(pr) == 0 {
						continue
					}
					id = pick(pr)
				} else {
					id = pick(ab)
				}
				seat := st.Draw(n)
				if st.Chance(1, 12) {
					seat = n + st.Draw(3)
				}
				if st.Chance(1, 40) {
					seat = -2
				}
				if _, dup := req[id]; dup {
					continue
				}
				req[id] = seat
				if seat < 0 || seat >= n || model.seats[seat] != nil || usedSeat[seat] || model.find(id) >= 0 {
					valid = false
				}
				usedSeat[seat] = true
			}
			if len(req) == 0 {
				continue
			}
			if model.n-model.count(func(s *mSeat) bool { return s != nil }) < len(req) {
				valid = false
			}
			err := real.AssignSeats(req)
			c.Logf("AssignSeats %v -> %v", req, err)
			c.Judged("C03.sm_assign")
			if valid && err != nil {
				c.Viol("C03", "C03.sm_valid_refused", map[string]any{"op": "AssignSeats"}, "valid AssignSeats(%v) refused: %v; state %v", req, err, model)
			} else if !valid && err == nil {
				c.Viol("C03", "C03.sm_invalid_accepted", map[string]any{"op": "AssignSeats"}, "invalid AssignSeats(%v) accepted; state before %v", req, model)
			}
			if valid && err == nil {
				for id, seat := range req {
					model.seats[seat] = &mSeat{id: id, hasChips: true}
				}
			}
			if !valid {
				c.Probe("invalid_assign")
			}
			compare("AssignSeats")
		case 1: // RandomAssignSeats
			cnt := 1 + st.Draw(3)
			var ids []string
			valid := true
			for i := 0; i < cnt; i++ {
				ab := absent()
				var id string
				if len(ab) == 0 || st.Chance(1, 10) {
					pr := present()
					if len(pr) == 0 {
						continue
					}
					id = pick(pr)
					valid = false
				} else {
					id = pick(ab)
				}
				for _, x := range ids {
					if x == id {
						valid = false
					}
				}
				ids = append(ids, id)
			}
			if len(ids) == 0 {
				continue
			}
			empty := model.n - model.count(func(s *mSeat) bool { return s != nil })
			if empty < len(ids) {
				valid = false
			}
			pre := model.clone()
			err := real.RandomAssignSeats(ids)
			c.Logf("RandomAssignSeats %v -> %v", ids, err)
			c.Judged("C03.sm_random_assign")
			if valid && err != nil {
				c.Viol("C03", "C03.sm_valid_refused", map[string]any{"op": "RandomAssignSeats"}, "valid RandomAssignSeats(%v) refused: %v; state %v", ids, err, model)
			} else if !valid && err == nil {
				c.Viol("C03", "C03.sm_invalid_accepted", map[string]any{"op": "RandomAssignSeats"}, "invalid RandomAssignSeats(%v) accepted (duplicate or already seated player, or no room); state before %v", ids, pre)
				return
			}
			if valid && err == nil {
				got := snapshotSM(real, n, rule)
				for _, id := range ids {
					seat := got.find(id)
					if seat < 0 || pre.seats[seat] != nil {
						c.Viol("C03", "C03.sm_random_seat", nil, "RandomAssignSeats put %s on seat %d which was not free: before %v after %v", id, seat, pre, got)
						return
					}
					model.seats[seat] = &mSeat{id: id, hasChips: true}
				}
			}
			compare("RandomAssignSeats")
		case 2: // RemoveSeats
			pr := present()
			var ids []string
			valid := true
			cnt := 1 + st.Draw(2)
			for i := 0; i < cnt; i++ {
				if len(pr) > 0 && !st.Chance(1, 8) {
					id := pick(pr)
					dup := false
					for _, x := range ids {
						dup = dup || x == id
					}
					if !dup {
						ids = append(ids, id)
					}
				} else {
					ids = append(ids, "ghost")
					valid = false
				}
			}
			if len(ids) == 0 {
				continue
			}
			err := real.RemoveSeats(ids)
			c.Logf("RemoveSeats %v -> %v", ids, err)
			c.Judged("C03.sm_remove")
			if valid && err != nil {
				c.Viol("C03", "C03.sm_valid_refused", map[string]any{"op": "RemoveSeats"}, "valid RemoveSeats(%v) refused: %v", ids, err)
			} else if !valid && err == nil {
				c.Viol("C03", "C03.sm_invalid_accepted", map[string]any{"op": "RemoveSeats"}, "RemoveSeats(%v) with an unknown player accepted", ids)
			}
			if valid && err == nil {
				for _, id := range ids {
					model.seats[model.find(id)] = nil
				}
			}
			compare("RemoveSeats")
		case 3: // JoinPlayers
			pr := present()
			if len(pr) == 0 {
				continue
			}
			ids := []string{pick(pr)}
			valid := true
			if st.Chance(1, 10) {
				ids = append(ids, "ghost")
				valid = false
			}
			err := real.JoinPlayers(ids)
			c.Logf("JoinPlayers %v -> %v", ids, err)
			if valid != (err == nil) {
				c.Viol("C03", "C03.sm_join_result", nil, "JoinPlayers(%v) valid=%v returned %v", ids, valid, err)
			}
			if valid && err == nil {
				model.seats[model.find(ids[0])].isIn = true
			}
			compare("JoinPlayers")
		case 4, 5: // bust / re-buy
			pr := present()
			if len(pr) == 0 {
				continue
			}
			id := pick(pr)
			has := kind == 5
			err := real.UpdatePlayerHasChips(id, has)
			c.Logf("UpdatePlayerHasChips %s %v -> %v", id, has, err)
			if err != nil {
				c.Viol("C03", "C03.sm_haschips_result", nil, "UpdatePlayerHasChips(%s) returned %v", id, err)
			}
			model.seats[model.find(id)].hasChips = has
			compare("UpdatePlayerHasChips")
		case 6: // init / rotate
			pre := snapshotSM(real, n, rule)
			var err error
			op := "rotate"
			if !pre.isInit && !st.Chance(1, 10) {
				op = "init"
				err = real.InitPositions(st.Chance(1, 2))
			} else if pre.isInit && st.Chance(1, 30) {
				op = "init"
				err = real.InitPositions(true)
			} else {
				err = real.RotatePositions()
			}
			post := snapshotSM(real, n, rule)
			c.Logf("%s -> %v : %v => %v", op, err, pre, post)
			checkRotation(c, pre, post, op, err)
			if err == nil {
				rotations++
			}
			model.d, model.sb, model.b, model.isInit = post.d, post.sb, post.b, post.isInit
			compare(op)
		}
	}
	c.Stat("rotations", int64(rotations))
	if c.Stopped() || c.Tainted() {
		return
	}
	// concurrent phase (C16, seat-manager clause): several tasks assign at the same instant
	nTasks := 2 + c.CfgInt("seat_tasks", 0, 2)
	type res struct {
		ids []string
		err error
	}
	results := make([]res, nTasks)
	var wg sync.WaitGroup
	ab := absent()
	before := snapshotSM(real, n, rule)
	for t := 0; t < nTasks; t++ {
		var ids []string
		cnt := 1 + st.Draw(2)
		for i := 0; i < cnt && len(ab) > 0; i++ {
			ids = append(ids, ab[0])
			ab = ab[1:]
		}
		if len(ids) == 0 {
			continue
		}
		results[t].ids = ids
		fixed := st.Chance(1, 2)
		seatBase := st.Draw(n)
		wg.Add(1)
		simrt.Go(0, fmt.Sprintf("assigner%d", t), func() {
			defer wg.Done()
			if fixed {
				req := map[string]int{}
				for i, id := range ids {
					req[id] = (seatBase + i) % n
				}
				results[t].err = real.AssignSeats(req)
			} else {
				results[t].err = real.RandomAssignSeats(ids)
			}
		})
	}
	wg.Wait()
	c.Judged("C16.sm_concurrent_assign")
	after := snapshotSM(real, n, rule)
	if !seatInvariants(c, real, n, "concurrent assign") {
		return
	}
	occ := 0
	for i := 0; i < n; i++ {
		if after.seats[i] != nil {
			occ++
		}
	}
	want := before.count(func(s *mSeat) bool { return s != nil })
	for t := range results {
		if results[t].ids == nil {
			continue
		}
		for _, id := range results[t].ids {
			seated := after.find(id) >= 0
			if results[t].err == nil && !seated {
				c.Viol("C16", "C16.sm_assigned_player_lost", nil, "concurrent assignment of %v returned nil but %s is not seated: %v", results[t].ids, id, after)
				return
			}
			if results[t].err != nil && seated {
				c.Viol("C16", "C16.sm_failed_assign_left_trace", nil, "concurrent assignment of %v failed (%v) but %s is seated: %v", results[t].ids, results[t].err, id, after)
				return
			}
		}
		if results[t].err == nil {
			want += len(results[t].ids)
		}
	}
	if occ != want {
		c.Viol("C16", "C16.sm_double_booked", nil, "after concurrent assignments %d seats are occupied but %d players were accepted: before %v after %v", occ, want, before, after)
	}
	c.Res.Summary = fmt.Sprintf("seats=%d rule=%s ops=%d rotations=%d", n, rule, nOps, rotations)
}
