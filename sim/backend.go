package sim

import (
	"encoding/json"
	"errors"
	"fmt"
	"time"

	"github.com/weedbox/pokerface"
	pt "github.com/weedbox/pokertable"
	"verif.local/simrt"
)

// faultBackend wraps the real NativeGameBackend (seam: the GameBackend interface). It injects
// failures and slowness (F4), and checks the chain of states handed to / returned by the backend
// (C13: the course of a hand is that of the successfully applied steps alone).

var errInjected = errors.New("injected backend failure")

type beCall struct {
	ord     int
	kind    string
	failed  bool
	atMs    int64
	engine  bool // a step the engine performs by itself
	matched bool
}

type faultBackend struct {
	w        *tableWorld
	real     *pt.NativeGameBackend
	st       *simrt.Stream
	ord      int
	lastOK   string
	lastKind string
	calls    []*beCall
	// set during a judged call
	injectedInCall int
	callsInCall    int
	forceFail      int // fail the next n calls (consecutive failures)
	SleptMs        int64
	suppress       bool
	inFlight       int
	anyFailed      bool
	enum           bool // fault-enumeration run (C13): exactly the failOrd-th backend call fails
	failOrd        int
	consumed       map[string]int // hand states that a successful step has already been applied to
}

func newFaultBackend(w *tableWorld) *faultBackend {
	b := &faultBackend{w: w, real: pt.NewNativeGameBackend(), st: w.c.St.Get("fault")}
	if v, ok := w.c.Ov("fail_ordinal"); ok {
		b.enum = true
		fmt.Sscan(v, &b.failOrd)
		w.c.Cfg["fail_ordinal"] = b.failOrd
	}
	return b
}

func normState(gs *pokerface.GameState) string {
	if gs == nil {
		return "nil"
	}
	b, _ := json.Marshal(gs)
	var m map[string]any
	json.Unmarshal(b, &m)
	if ps, ok := m["players"].([]any); ok {
		for _, p := range ps {
			if pm, ok := p.(map[string]any); ok {
				delete(pm, "allowed_actions") // the engine itself adds ready / pay permissions
			}
		}
	}
	out, _ := json.Marshal(m)
	return string(out)
}

var engineKinds = map[string]bool{"ReadyForAll": true, "PayAnte": true, "PayBlinds": true, "Next": true, "CreateGame": true}

func (b *faultBackend) do(kind string, in *pokerface.GameState, f func() (*pokerface.GameState, error)) (*pokerface.GameState, error) {
	c := b.w.c
	b.ord++
	b.callsInCall++
	b.inFlight++
	defer func() { b.inFlight-- }()
	call := &beCall{ord: b.ord, kind: kind, atMs: c.NowMs(), engine: engineKinds[kind]}
	b.calls = append(b.calls, call)
	stale := false
	inNorm := ""
	if kind != "CreateGame" {
		c.Judged("C13.chain_link")
		inNorm = normState(in)
		stale = inNorm != b.lastOK
	}
	fail := false
	if b.failOrd > 0 && b.ord == b.failOrd && kind != "CreateGame" {
		fail = true
		c.Probe("enumerated_failure_" + kind)
	} else if b.failOrd >= 0 && b.enum {
		// enumeration run: no random injection
	} else if b.forceFail > 0 {
		b.forceFail--
		fail = true
	} else if b.w.cfg.backendF && !b.enum && !b.suppress && b.w.inFaultWindow() && kind != "CreateGame" {
		switch b.st.Pick(90, 6, 2, 2) {
		case 1:
			fail = true
		case 2:
			fail = true
			b.forceFail = 1 + b.st.Draw(3)
			c.Probe("consecutive_backend_failures")
		case 3:
			d := int64(1 + b.st.Draw(4000))
			c.Fault("F4_backend_slow")
			b.SleptMs += d
			simrt.Sleep(0, time.Duration(d)*time.Millisecond)
		}
	}
	if fail {
		if !b.w.cfg.atomicCalls && b.st.Chance(1, 2) {
			// the backend takes its time before it fails (a remote backend timing out): other steps can
			// be applied to the hand meanwhile
			d := int64(1 + b.st.Draw(1500))
			b.SleptMs += d
			simrt.Sleep(0, time.Duration(d)*time.Millisecond)
		}
		call.failed = true
		b.anyFailed = true
		b.injectedInCall++
		c.Fault("F4_backend_error_" + kind)
		c.Logf("BACKEND #%d %s -> injected failure", b.ord, kind)
		if call.engine {
			b.w.mon.engineStepFailed(call)
		}
		return nil, errInjected
	}
	out, err := f()
	if b.w.c.Job.DumpLog {
		ev := ""
		if out != nil {
			ev = out.Status.CurrentEvent + "/" + out.Status.Round
		}
		c.Logf("BACKEND #%d %s -> %s %v (task %s)", b.ord, kind, ev, err, simrt.CurName())
	}
	if err == nil {
		if inNorm != "" {
			if b.consumed == nil {
				b.consumed = map[string]int{}
			}
			if prev, dup := b.consumed[inNorm]; dup {
				stale = true
				_ = prev
			}
			b.consumed[inNorm] = b.ord
		}
		if stale {
			// a step was applied to a state that is not the latest successfully produced one: the
			// hand forks and one of the branches will be lost
			c.Viol("C13", "C13.chain_broken", map[string]any{"kind": kind, "after": b.lastKind}, "backend call #%d %s succeeded on a state that is not the one returned by the last successful call (%s)", b.ord, kind, b.lastKind)
			c.Viol("C10", "C10.accepted_action_not_applied_once", map[string]any{"kind": kind}, "backend call #%d %s was applied to a hand state that another accepted step (%s) had already been applied to: one of the two accepted actions is lost", b.ord, kind, b.lastKind)
			c.Viol("C16", "C16.concurrent_actions_forked_hand", map[string]any{"kind": kind}, "two game actions submitted at the same time were both applied to the same hand state (backend call #%d %s after %s): one of them is lost", b.ord, kind, b.lastKind)
		}
		b.lastOK = normState(out)
		b.lastKind = kind
		switch kind {
		case "Fold", "Check", "Call", "Allin", "Bet", "Raise":
			if in != nil {
				b.w.mon.backendWager(in.Status.CurrentPlayer, kind)
			}
		}
	} else if stale {
		c.Probe("stale_state_step_refused_by_rules")
	}
	return out, err
}

func (b *faultBackend) CreateGame(opts *pokerface.GameOptions) (*pokerface.GameState, error) {
	b.consumed = nil
	return b.do("CreateGame", nil, func() (*pokerface.GameState, error) { return b.real.CreateGame(opts) })
}
func (b *faultBackend) ReadyForAll(gs *pokerface.GameState) (*pokerface.GameState, error) {
	return b.do("ReadyForAll", gs, func() (*pokerface.GameState, error) { return b.real.ReadyForAll(gs) })
}
func (b *faultBackend) PayAnte(gs *pokerface.GameState) (*pokerface.GameState, error) {
	return b.do("PayAnte", gs, func() (*pokerface.GameState, error) { return b.real.PayAnte(gs) })
}
func (b *faultBackend) PayBlinds(gs *pokerface.GameState) (*pokerface.GameState, error) {
	return b.do("PayBlinds", gs, func() (*pokerface.GameState, error) { return b.real.PayBlinds(gs) })
}
func (b *faultBackend) Next(gs *pokerface.GameState) (*pokerface.GameState, error) {
	return b.do("Next", gs, func() (*pokerface.GameState, error) { return b.real.Next(gs) })
}
func (b *faultBackend) Pay(gs *pokerface.GameState, chips int64) (*pokerface.GameState, error) {
	return b.do("Pay", gs, func() (*pokerface.GameState, error) { return b.real.Pay(gs, chips) })
}
func (b *faultBackend) Fold(gs *pokerface.GameState) (*pokerface.GameState, error) {
	return b.do("Fold", gs, func() (*pokerface.GameState, error) { return b.real.Fold(gs) })
}
func (b *faultBackend) Check(gs *pokerface.GameState) (*pokerface.GameState, error) {
	return b.do("Check", gs, func() (*pokerface.GameState, error) { return b.real.Check(gs) })
}
func (b *faultBackend) Call(gs *pokerface.GameState) (*pokerface.GameState, error) {
	return b.do("Call", gs, func() (*pokerface.GameState, error) { return b.real.Call(gs) })
}
func (b *faultBackend) Allin(gs *pokerface.GameState) (*pokerface.GameState, error) {
	return b.do("Allin", gs, func() (*pokerface.GameState, error) { return b.real.Allin(gs) })
}
func (b *faultBackend) Bet(gs *pokerface.GameState, chips int64) (*pokerface.GameState, error) {
	return b.do("Bet", gs, func() (*pokerface.GameState, error) { return b.real.Bet(gs, chips) })
}
func (b *faultBackend) Raise(gs *pokerface.GameState, chipLevel int64) (*pokerface.GameState, error) {
	return b.do("Raise", gs, func() (*pokerface.GameState, error) { return b.real.Raise(gs, chipLevel) })
}
func (b *faultBackend) Pass(gs *pokerface.GameState) (*pokerface.GameState, error) {
	return b.do("Pass", gs, func() (*pokerface.GameState, error) { return b.real.Pass(gs) })
}
