package sim

import (
	"encoding/json"
	"fmt"
	"sort"
	"sync"
	"time"

	ogm "github.com/weedbox/pokertable/open_game_manager"
	"verif.local/simrt"
)

// W-OGM: the open-game gate alone (property C09).
//
// Spec parameters (from the property statement): the gate fires once per set-up, only after
// every participant signalled or the configured timeout (seconds, option Timeout) elapsed.

type ogmGen struct {
	count     int
	parts     map[string]int
	invokeMs  int64
	returnMs  int64
	returned  bool
	fires     int
	instance  int
	restoreMs int64 // >0 if this generation was carried over a crash/restore
	preReady  map[string]bool
}

type ogmSignal struct {
	id       string
	invokeMs int64
	returnMs int64
	done     bool
	err      error
	instance int
}

type ogmWorld struct {
	c              *Ctx
	timeout        int
	gate           ogm.OpenGameManager
	instance       int
	gens           map[int]*ogmGen
	genOrder       []int
	genList        []*ogmGen
	signals        []*ogmSignal
	setupsInFlight int
	opsInFlight    int
	lastSetup      *ogmGen
	mu             sync.Mutex // not needed for exclusion (baton) but documents intent
}

func init() { RegisterWorld("ogm", func() World { return &ogmWorld{} }) }

func (w *ogmWorld) Name() string { return "ogm" }

func (w *ogmWorld) newGate(inst int, from *ogm.OpenGameState) ogm.OpenGameManager {
	opt := ogm.OpenGameOption{Timeout: w.timeout, OnOpenGameReady: func(st ogm.OpenGameState) {
		w.onFire(inst, st)
	}}
	if from != nil {
		return ogm.NewOpenGameManagerFromState(*from, opt)
	}
	return ogm.NewOpenGameManager(opt)
}

func copyState(st ogm.OpenGameState) ogm.OpenGameState {
	b, _ := json.Marshal(st)
	var out ogm.OpenGameState
	json.Unmarshal(b, &out)
	return out
}

func (w *ogmWorld) onFire(inst int, live ogm.OpenGameState) {
	c := w.c
	st := copyState(live)
	now := c.NowMs()
	ids := make([]string, 0, len(st.Participants))
	allReady := true
	for id, p := range st.Participants {
		ids = append(ids, id)
		if !p.IsReady {
			allReady = false
		}
	}
	sort.Strings(ids)
	c.Logf("FIRE inst=%d gc=%d parts=%v allReady=%v", inst, st.GameCount, ids, allReady)
	if inst != w.instance {
		c.Probe("fire_from_dead_instance_ignored")
		return
	}
	if w.setupsInFlight > 0 {
		c.Inconc("fire_overlaps_setup")
		c.Probe("fire_overlaps_setup")
		return
	}
	c.Judged("C09.fire")
	g, ok := w.gens[st.GameCount]
	if !ok {
		c.Viol("C09", "C09.unknown_generation", nil, "callback reported game count %d which was never set up", st.GameCount)
		return
	}
	// superseded?
	if w.lastSetup != nil && w.lastSetup != g && w.lastSetup.returned {
		// only definite if g cannot have completed before the newer set-up began
		if !w.couldHaveCompletedBy(g, w.lastSetup.invokeMs) {
			c.Viol("C09", "C09.stale_fired", nil, "set-up %d fired at %dms after set-up %d had superseded it at %dms", g.count, now, w.lastSetup.count, w.lastSetup.returnMs)
			return
		}
		c.Probe("late_delivery_of_completed_generation")
		g.fires++
		return
	}
	g.fires++
	if g.fires > 1 {
		c.Viol("C09", "C09.fired_twice", map[string]any{"restored": g.restoreMs > 0}, "set-up %d fired %d times", g.count, g.fires)
		return
	}
	// participants reported
	want := make([]string, 0, len(g.parts))
	for id := range g.parts {
		want = append(want, id)
	}
	sort.Strings(want)
	if fmt.Sprint(want) != fmt.Sprint(ids) {
		// the same game count may have been set up before: an earlier set-up with exactly these
		// participants that had completed before it was superseded may be delivered late
		for i := len(w.genList) - 2; i >= 0; i-- {
			e := w.genList[i]
			if e.count != g.count || e == g || e.fires > 0 || e.instance != g.instance {
				continue
			}
			ew := make([]string, 0, len(e.parts))
			for id := range e.parts {
				ew = append(ew, id)
			}
			sort.Strings(ew)
			if fmt.Sprint(ew) == fmt.Sprint(ids) && w.couldHaveCompletedBy(e, w.genList[i+1].invokeMs+0) {
				e.fires++
				g.fires--
				c.Probe("late_delivery_of_completed_generation")
				return
			}
		}
		c.Viol("C09", "C09.wrong_participants", nil, "set-up %d has participants %v but the callback reported %v", g.count, want, ids)
		return
	}
	if !allReady {
		c.Viol("C09", "C09.reported_not_ready", nil, "callback for set-up %d reported a participant that is not ready", g.count)
		return
	}
	// premature?
	base := g.invokeMs
	if g.restoreMs > 0 {
		base = g.restoreMs
	}
	timedOut := w.timeout > 0 && now-base >= int64(w.timeout)*1000
	if !timedOut {
		missing := w.missingSignals(g, now)
		if len(missing) > 0 {
			c.Viol("C09", "C09.premature", map[string]any{"restored": g.restoreMs > 0, "after_supersede": len(w.genOrder) > 1},
				"set-up %d fired %dms after set-up (timeout %ds) although %v never signalled", g.count, now-base, w.timeout, missing)
			return
		}
		c.Probe("fired_on_all_ready")
	} else {
		c.Probe("fired_on_timeout")
	}
}

// missingSignals: participants of g without a Ready call that overlaps or follows g's set-up and was invoked by `now`.
func (w *ogmWorld) missingSignals(g *ogmGen, now int64) []string {
	var missing []string
	for id := range g.parts {
		if g.preReady[id] {
			continue
		}
		ok := false
		for _, s := range w.signals {
			if s.id != id || s.invokeMs > now {
				continue
			}
			if g.restoreMs > 0 && s.invokeMs < g.restoreMs {
				continue // sent to the instance that crashed; what it recorded is in preReady
			}
			if s.done && s.returnMs < g.invokeMs {
				continue // finished before this set-up began
			}
			if s.done && s.err != nil {
				continue
			}
			ok = true
			break
		}
		if !ok {
			missing = append(missing, id)
		}
	}
	sort.Strings(missing)
	return missing
}

func (w *ogmWorld) couldHaveCompletedBy(g *ogmGen, t int64) bool {
	if w.timeout > 0 && t-g.invokeMs >= int64(w.timeout)*1000 {
		return true
	}
	return len(w.missingSignals(g, t)) == 0
}

func (w *ogmWorld) setup(count int, parts map[string]int) {
	c := w.c
	g := &ogmGen{count: count, parts: parts, invokeMs: c.NowMs(), instance: w.instance, preReady: map[string]bool{}}
	w.gens[count] = g // a fire reporting this count is attributed to the latest set-up that used it
	w.genOrder = append(w.genOrder, count)
	w.genList = append(w.genList, g)
	w.setupsInFlight++
	w.lastSetup = g
	c.Logf("SETUP gc=%d parts=%v invoke", count, parts)
	p2 := map[string]int{}
	for k, v := range parts {
		p2[k] = v
	}
	w.gate.Setup(count, p2)
	g.returnMs = c.NowMs()
	g.returned = true
	w.setupsInFlight--
	c.Logf("SETUP gc=%d return", count)
	c.Judged("C09.setup")
	if len(w.genList) > 1 {
		prev := w.genList[len(w.genList)-2]
		if prev.fires == 0 {
			c.Probe("superseded_unfired_generation")
			if len(w.missingSignals(prev, g.invokeMs)) < len(prev.parts) {
				c.Probe("gate_superseded_with_pending_signals")
			}
		}
	}
}

func (w *ogmWorld) signal(id string, judged bool) {
	c := w.c
	s := &ogmSignal{id: id, invokeMs: c.NowMs(), instance: w.instance}
	w.signals = append(w.signals, s)
	w.opsInFlight++
	gate := w.gate
	var before, after string
	known := false
	alreadyReady := false
	atomic := true
	call := func() {
		if judged {
			st := gate.GetState()
			_, known = st.Participants[id]
			if known {
				alreadyReady = st.Participants[id].IsReady
			}
			b, _ := json.Marshal(st)
			before = string(b)
		}
		s.err = gate.Ready(id)
		if judged {
			b, _ := json.Marshal(gate.GetState())
			after = string(b)
		}
	}
	if judged {
		atomic = simrt.Atomic(call)
	} else {
		call()
	}
	s.returnMs = c.NowMs()
	s.done = true
	w.opsInFlight--
	c.Logf("READY %s -> %v", id, s.err)
	if judged && atomic && w.setupsInFlight == 0 && gate == w.gate {
		if !known {
			c.Judged("C09.unknown_signal")
			if s.err == nil {
				c.Viol("C09", "C09.unknown_accepted", nil, "Ready(%q) for a participant that is not part of the current set-up returned no error", id)
			} else if before != after {
				c.Viol("C09", "C09.unknown_changed_state", nil, "rejected Ready(%q) changed the gate state: %s -> %s", id, before, after)
			}
		} else if alreadyReady {
			c.Judged("C09.repeated_signal")
			if before != after {
				c.Viol("C09", "C09.repeat_changed_state", nil, "repeated Ready(%q) changed the gate state: %s -> %s", id, before, after)
			}
		} else {
			c.Judged("C09.first_signal")
			if s.err != nil {
				c.Viol("C09", "C09.known_rejected", nil, "Ready(%q) of a current participant returned %v", id, s.err)
			}
		}
	} else if judged {
		c.Inconc("not_atomic")
	}
}

func (w *ogmWorld) Run(c *Ctx) {
	w.c = c
	w.gens = map[int]*ogmGen{}
	w.timeout = c.CfgInt("ogm_timeout", 0, 5)
	if c.CfgBool("ogm_timeout_default2", 1, 3) {
		w.timeout = 2
		c.Cfg["ogm_timeout"] = 2
	}
	nSetups := 1 + c.CfgInt("ogm_setups", 0, 5)
	nSig := 1 + c.CfgInt("ogm_signallers", 0, 3)
	crashes := 0
	if c.CfgBool("ogm_crash", 1, 4) {
		crashes = 1 + c.CfgInt("ogm_crashes", 0, 1)
	}
	pool := []string{"a", "b", "c", "d", "e", "f", "g", "h", "i", "j"}
	w.gate = w.newGate(0, nil)
	plan := c.St.Get("admin")
	var wg sync.WaitGroup
	stopSignallers := false
	currentParts := func() []string {
		if w.lastSetup == nil {
			return nil
		}
		ids := make([]string, 0)
		for id := range w.lastSetup.parts {
			ids = append(ids, id)
		}
		sort.Strings(ids)
		return ids
	}
	// signallers
	for i := 0; i < nSig; i++ {
		cs := c.St.Get(fmt.Sprintf("client.s%d", i))
		wg.Add(1)
		simrt.Go(0, fmt.Sprintf("signaller%d", i), func() {
			defer wg.Done()
			for n := 0; n < 40 && !stopSignallers && !c.Stopped(); n++ {
				d := []int{0, 0, 1, 5, 50, 300, 1200}[cs.Draw(7)]
				if d > 0 {
					simrt.Sleep(0, time.Duration(d)*time.Millisecond)
				} else {
					simrt.ForceYield()
				}
				ids := currentParts()
				var id string
				switch k := cs.Pick(70, 10, 20); {
				case k == 0 && len(ids) > 0:
					id = ids[cs.Draw(len(ids))]
				case k == 1:
					id = "zz-unknown"
				default:
					id = pool[cs.Draw(len(pool))]
				}
				w.signal(id, cs.Chance(1, 2))
			}
		})
	}
	// setter (+ crash/restore)
	wg.Add(1)
	simrt.Go(0, "setter", func() {
		defer wg.Done()
		count := 0
		for k := 0; k < nSetups && !c.Stopped(); k++ {
			d := []int{0, 0, 1, 10, 200, 1000, 2500, 6000}[plan.Draw(8)]
			if d > 0 {
				simrt.Sleep(0, time.Duration(d)*time.Millisecond)
			}
			// mostly increasing game counts; sometimes the same count is set up again (a repeated set-up
			// call for the same hand), which supersedes like any other set-up
			if k == 0 || !plan.Chance(1, 5) {
				count += 1 + plan.Draw(2)
			} else {
				c.Probe("setup_repeats_game_count")
			}
			n := 1 + plan.Draw(6)
			if plan.Chance(1, 12) {
				n = 0
			}
			perm := append([]string(nil), pool...)
			for i := len(perm) - 1; i >= 1; i-- {
				j := i - plan.Draw(i+1)
				perm[i], perm[j] = perm[j], perm[i]
			}
			parts := map[string]int{}
			for i := 0; i < n; i++ {
				parts[perm[i]] = i
			}
			w.setup(count, parts)
			if crashes > 0 && plan.Chance(1, 3) {
				crashes--
				// crash at a quiescent point: let everything runnable drain first
				simrt.Sleep(0, time.Duration(1+plan.Draw(1500))*time.Millisecond)
				for k := 0; w.opsInFlight > 0 && k < 50; k++ {
					simrt.Sleep(0, time.Millisecond)
				}
				if w.opsInFlight > 0 {
					c.Probe("signal_call_stuck_forever")
					return // a Ready call never returned (blocked inside the ready group); no quiescent point exists
				}
				simrt.Sleep(0, time.Millisecond)
				saved := copyState(w.gate.GetState())
				w.instance++
				c.Fault("F6_gate_crash_restore")
				sj, _ := json.Marshal(saved)
				c.Logf("CRASH/RESTORE gc=%d saved=%s", saved.GameCount, sj)
				if g, ok := w.gens[saved.GameCount]; ok {
					g.restoreMs = c.NowMs()
					g.instance = w.instance
					// From the saved state alone one cannot tell whether the crashed instance had already
					// delivered its callback, so the rebuilt gate may fire (at most) once more.
					g.fires = 0
					allReady := len(saved.Participants) > 0
					for id, p := range saved.Participants {
						if p.IsReady {
							g.preReady[id] = true
						} else {
							allReady = false
						}
					}
					if allReady {
						c.Probe("restore_with_all_ready")
					}
				}
				w.gate = w.newGate(w.instance, &saved)
			}
		}
	})
	// never wait unboundedly on the system under test: a call may block for ever
	done := make(chan struct{})
	simrt.Go(0, "joiner", func() { wg.Wait(); close(done) })
	select {
	case <-done:
	case <-time.After(400 * time.Second):
		c.Probe("workload_task_stuck_forever")
	}
	stopSignallers = true
	if c.Stopped() {
		return
	}
	// quiesce: faults have stopped; prompt signals for the last generation half of the time
	last := w.lastSetup
	prompt := plan.Chance(1, 2)
	if last != nil && prompt {
		for _, id := range currentParts() {
			w.signal(id, false)
		}
	}
	simrt.Sleep(0, time.Duration(w.timeout+30)*time.Second)
	if c.Stopped() {
		return
	}
	// liveness of the last, un-superseded generation
	if last != nil && len(last.parts) > 0 {
		allPreReady := last.restoreMs > 0
		for id := range last.parts {
			if !last.preReady[id] {
				allPreReady = false
			}
		}
		mustFire := w.timeout > 0 || len(w.missingSignals(last, c.NowMs())) == 0
		if allPreReady {
			mustFire = false // had completed before the crash; nothing left to report
		}
		c.Judged("C09.liveness")
		if mustFire && last.fires == 0 {
			c.Viol("C09", "C09.never_fired", map[string]any{"restored": last.restoreMs > 0, "timeout": w.timeout > 0}, "set-up %d (participants %v) never fired within %ds after the last fault", last.count, last.parts, w.timeout+30)
		}
		if !mustFire && last.fires == 0 {
			c.Probe("legitimately_unfired")
		}
	}
	c.Res.Summary = fmt.Sprintf("setups=%d signals=%d timeout=%d", len(w.genOrder), len(w.signals), w.timeout)
}
