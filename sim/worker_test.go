package sim

import "testing"

// TestWorker is the entry point of a worker process (see runner.go). It is a test only because
// testing/synctest needs a *testing.T.
func TestWorker(t *testing.T) { WorkerMain(t) }
