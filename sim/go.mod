module verif.local/sim

go 1.26.8

require (
	github.com/anishathalye/porcupine v1.3.0
	github.com/google/uuid v1.3.1
	github.com/weedbox/pokerface v0.1.10
	github.com/weedbox/pokertable v0.0.0
	github.com/weedbox/syncsaga v0.0.0-20230821071725-a634f0872340
	github.com/weedbox/timebank v0.0.0-20230713013837-bd7a6f808e3e
	verif.local/simrt v0.0.0
)

replace github.com/weedbox/pokertable => ../pokertable

replace github.com/weedbox/syncsaga => ../syncsaga

replace github.com/weedbox/pokerface => ../pokerface

replace github.com/weedbox/timebank => ../timebank

replace verif.local/simrt => ../simrt
