package sim

import (
	"encoding/json"
	"fmt"
	"os"
	"sort"
	"strings"
	"verif.local/simrt"

	pt "github.com/weedbox/pokertable"
)

// ---- judged game actions (C10, C13, C02 attribution, C14/C11 bookkeeping) ------------------------

type judgedAction struct {
	id, action string
	amt        int64
	status     string
	gc         int
	gameID     string
	roundTable string
	roundHand  string
	idx        int
	seat       int
	mustRefuse string // reason, "" if the engine may accept
	before     string
	after      string
	nEvBefore  int
	events     []pt.TablePlayerGameAction
	injected   int
	last       *pt.TablePlayerGameAction
	didAction  string
	acted      bool
	hadHand    bool
	lastSrc    int
	lastType   string
}

func (m *tableMon) fullState() string {
	eng := m.w.eng
	tb := eng.GetTable()
	tj, _ := tb.GetJSON()
	gj := "nil"
	if g := eng.GetGame(); g != nil {
		b, _ := json.Marshal(g.GetGameState())
		gj = string(b)
	}
	return tj + "\n" + gj + "\n" + m.smJSON() + "\n" + m.ogmJSON()
}

func (m *tableMon) smJSON() string {
	sm := pt.VerifSeatManager(m.w.eng)
	if sm == nil {
		return "nil"
	}
	seats := sm.Seats()
	keys := make([]int, 0, len(seats))
	for k := range seats {
		keys = append(keys, k)
	}
	sort.Ints(keys)
	s := fmt.Sprintf("D%d/SB%d/BB%d init=%v", sm.CurrentDealerSeatID(), sm.CurrentSBSeatID(), sm.CurrentBBSeatID(), sm.IsInitPositions())
	for _, k := range keys {
		if sp := seats[k]; sp != nil {
			s += fmt.Sprintf(" %d:%s/%v/%v/%v", k, sp.ID, sp.IsIn, sp.HasChips, sp.IsBetweenDealerBB)
		}
	}
	return s
}

func (m *tableMon) ogmJSON() string {
	g := pt.VerifOpenGameManager(m.w.eng)
	if g == nil {
		return "nil"
	}
	b, _ := json.Marshal(g.GetState())
	return string(b)
}

func (m *tableMon) preAction(id, action string, amt int64) judgedAction {
	eng := m.w.eng
	tb := eng.GetTable()
	j := judgedAction{id: id, action: action, amt: amt, status: string(tb.State.Status), gc: tb.State.GameCount, idx: -1, seat: -1}
	j.idx = tb.FindGamePlayerIdx(id)
	for _, p := range tb.State.PlayerStates {
		if p.PlayerID == id {
			j.seat = p.Seat
		}
	}
	if tb.State.GameState != nil {
		j.roundTable = tb.State.GameState.Status.Round
	}
	switch {
	case tb.State.Status != pt.TableStateStatus_TableGamePlaying:
		j.mustRefuse = "no hand is being played"
	case j.idx < 0:
		j.mustRefuse = "caller is not dealt in"
	default:
		g := eng.GetGame()
		var gs = tb.State.GameState
		if g != nil && g.GetGameState() != nil {
			gs = g.GetGameState()
		}
		if gs == nil {
			j.mustRefuse = "no hand state"
			break
		}
		j.hadHand = true
		j.gameID = gs.GameID
		j.roundHand = gs.Status.Round
		p := gs.GetPlayer(j.idx)
		switch {
		case p == nil:
			j.mustRefuse = "caller has no entry in the hand"
		case !hasStr(p.AllowedActions, action):
			j.mustRefuse = "action not allowed for the caller"
		case (isWager(action) || action == "pass") && gs.Status.CurrentPlayer != j.idx:
			j.mustRefuse = "not the caller's turn"
		}
	}
	j.before = m.fullState()
	j.nEvBefore = len(m.actionEvents)
	m.w.be.injectedInCall = 0
	m.w.be.callsInCall = 0
	return j
}

func (m *tableMon) postAction(j *judgedAction, err error) {
	j.after = m.fullState()
	j.events = append([]pt.TablePlayerGameAction{}, m.actionEvents[j.nEvBefore:]...)
	j.injected = m.w.be.injectedInCall
	tb := m.w.eng.GetTable()
	if tb.State.LastPlayerGameAction != nil {
		cp := *tb.State.LastPlayerGameAction
		j.last = &cp
	}
	if g := m.w.eng.GetGame(); g != nil && g.GetGameState() != nil && j.idx >= 0 {
		if p := g.GetGameState().GetPlayer(j.idx); p != nil {
			j.didAction = p.DidAction
			j.acted = p.Acted
		}
		if la := g.GetGameState().Status.LastAction; la != nil {
			j.lastSrc, j.lastType = la.Source, la.Type
		} else {
			j.lastSrc = -1
		}
	}
}

func (m *tableMon) judgeAction(j *judgedAction, err error, who string) {
	c := m.c
	if j.injected > 0 {
		// C13: a backend failure while applying this player's action
		c.Judged("C13.player_action_failed")
		if err == nil || err.Error() != errInjected.Error() {
			c.Viol("C13", "C13.error_not_returned", map[string]any{"action": j.action}, "backend failed while applying %s %s but the caller received %v", j.id, j.action, err)
			return
		}
		if j.before != j.after {
			c.Viol("C13", "C13.failed_action_left_trace", map[string]any{"action": j.action}, "backend failed while applying %s %s; state changed: %s", j.id, j.action, firstDiff(j.before, j.after))
			return
		}
		if len(j.events) > 0 {
			c.Viol("C13", "C13.failed_action_emitted_event", map[string]any{"action": j.action}, "backend failed while applying %s %s but an action event was emitted", j.id, j.action)
			return
		}
		// the same action can be submitted again
		save := m.w.be.forceFail
		m.w.be.forceFail = 0
		m.w.be.suppress = true
		var err2 error
		var j2 judgedAction
		okAtomic := simrt.Atomic(func() {
			gc2, ev2 := m.preLight()
			j2 = m.preAction(j.id, j.action, j.amt)
			err2 = m.w.rawAct(j.id, j.action, j.amt)
			m.postAction(&j2, err2)
			m.recordAction(j.id, j.action, j.amt, err2, gc2, ev2)
		})
		m.w.be.suppress = false
		m.w.be.forceFail = save
		if !okAtomic {
			m.markNotAtomic(j2.gc)
		}
		c.Judged("C13.retry")
		if err2 != nil && err2.Error() == errInjected.Error() {
			c.Viol("C13", "C13.retry_failed", nil, "retry of %s %s returned the injected error again without a new injection", j.id, j.action)
			return
		}
		c.Logf("RETRY %s %s -> %v", j.id, j.action, err2)
		if err2 == nil {
			c.Probe("retry_after_backend_failure_succeeded")
		}
		return
	}
	if err != nil {
		c.Judged("C10.refused")
		if j.mustRefuse != "" {
			c.Probe("illegal_action_refused")
		}
		if j.before != j.after {
			c.Viol("C10", "C10.refused_left_trace", map[string]any{"action": j.action, "must_refuse": j.mustRefuse != ""}, "%s %s was refused (%v) but the state changed: %s", j.id, j.action, err, firstDiff(j.before, j.after))
			return
		}
		if len(j.events) > 0 {
			c.Viol("C10", "C10.refused_emitted_event", map[string]any{"action": j.action}, "%s %s was refused (%v) but an action event was emitted", j.id, j.action, err)
		}
		return
	}
	c.Judged("C10.accepted")
	if j.mustRefuse != "" {
		c.Viol("C10", "C10.accepted_illegal", map[string]any{"reason": j.mustRefuse, "action_kind": kindOf(j.action)}, "%s %s was accepted although %s (status %s, hand round %s)", j.id, j.action, j.mustRefuse, j.status, j.roundHand)
		return
	}
	// applied once, published
	if j.last == nil || j.last.PlayerID != j.id || j.last.Action != j.action || j.last.Seat != j.seat || j.last.GameCount != j.gc || (j.gameID != "" && j.last.GameID != j.gameID) {
		c.Viol("C10", "C10.last_action_wrong", map[string]any{"action_kind": kindOf(j.action)}, "accepted %s %s (seat %d, hand %d/%s) but the table's last player action is %+v", j.id, j.action, j.seat, j.gc, j.gameID, j.last)
		return
	}
	if j.last.Round != j.roundHand && j.last.Round != j.roundTable {
		c.Viol("C10", "C10.last_action_round", nil, "accepted %s %s in round %s but it is published with round %q", j.id, j.action, j.roundHand, j.last.Round)
		return
	}
	if j.roundHand != j.roundTable {
		c.Probe("table_view_lags_hand")
	}
	if isWager(j.action) || j.action == "pass" {
		if len(j.events) != 1 {
			c.Viol("C10", "C10.action_event_count", map[string]any{"n": len(j.events)}, "accepted %s %s produced %d action events", j.id, j.action, len(j.events))
			return
		}
		e := j.events[0]
		if e.PlayerID != j.id || e.Action != j.action || e.Seat != j.seat || e.GameCount != j.gc || e.GameID != j.gameID {
			c.Viol("C10", "C10.action_event_wrong", nil, "accepted %s %s (seat %d hand %d) but the action event says %+v", j.id, j.action, j.seat, j.gc, e)
			return
		}
		if isWager(j.action) {
			// C02: the accepted action changed exactly the caller's entry of the hand
			c.Judged("C02.action_attribution")
			// (the rule engine records a raise to exactly the current wager as a call, and a raise / bet
			// the stack cannot cover as an all-in)
			downgraded := j.lastType == "allin" || (j.action == "raise" && j.lastType == "call")
			if j.lastSrc != j.idx || (j.lastType != j.action && !downgraded) {
				c.Viol("C02", "C02.action_wrong_entry", nil, "accepted %s %s for entry %d: the hand's last action is %q by entry %d", j.id, j.action, j.idx, j.lastType, j.lastSrc)
			}
		}
	} else if len(j.events) != 0 && false {
		_ = j
	}
}

func kindOf(a string) string {
	if isWager(a) {
		return "wager"
	}
	return a
}

func firstDiff(a, b string) string {
	n := len(a)
	if len(b) < n {
		n = len(b)
	}
	i := 0
	for i < n && a[i] == b[i] {
		i++
	}
	lo := i - 60
	if lo < 0 {
		lo = 0
	}
	ha, hb := i+80, i+80
	if ha > len(a) {
		ha = len(a)
	}
	if hb > len(b) {
		hb = len(b)
	}
	return fmt.Sprintf("...%s  =>  ...%s", a[lo:ha], b[lo:hb])
}

// preLight: which hand and which request the engine is at (authoritative hand state), read in the
// same atomic section as the call that follows.
func (m *tableMon) preLight() (int, string) {
	tb := m.w.eng.GetTable()
	gc := tb.State.GameCount
	if tb.State.Status != pt.TableStateStatus_TableGamePlaying {
		return gc, ""
	}
	if g := m.w.eng.GetGame(); g != nil {
		if gs := g.GetGameState(); gs != nil {
			return gc, gs.Status.CurrentEvent + "/" + gs.Status.Round
		}
	}
	return gc, ""
}

// pendingAction registers a call that runs interleaved with the engine: between invoke and return
// the monitors must treat it as possibly accepted.
func (m *tableMon) pendingAction(id, action string, amt int64, gc int) *actRec {
	h := m.hands[gc]
	if h == nil {
		h = m.cur
	}
	if h == nil {
		return nil
	}
	h.actionsP = append(h.actionsP, &actRec{id: id, action: action, amt: amt, ok: true, atMs: m.c.NowMs(), evKey: "?", pending: true})
	return h.actionsP[len(h.actionsP)-1]
}

func (m *tableMon) finishPending(a *actRec, err error) {
	if a == nil {
		return
	}
	a.pending = false
	a.ok = err == nil
	a.atMs = m.c.NowMs()
}

func (m *tableMon) markNotAtomic(gc int) {
	if h := m.hands[gc]; h != nil {
		h.recordUnreliable = true
	}
	if m.cur != nil {
		m.cur.recordUnreliable = true
	}
}

func (m *tableMon) recordAction(id, action string, amt int64, err error, gc int, evKey string) {
	c := m.c
	h := m.hands[gc]
	if h == nil {
		h = m.cur
	}
	if h == nil {
		return
	}
	h.actions = append(h.actions, actRec{id: id, action: action, amt: amt, ok: err == nil, atMs: c.NowMs(), evKey: evKey})
}

// ---- membership operations (C03, C01 ledger) -----------------------------------------------------

type memberSnap struct {
	seq       int64
	table     string
	sm        string
	bank      map[string]int64
	roster    []string
	inHand    bool
	gc        int
	ids       map[string]bool
	seatTaken map[int]bool
}

func (m *tableMon) memberBefore() *memberSnap {
	tb := m.w.eng.GetTable()
	s := &memberSnap{seq: m.c.Seq(), bank: map[string]int64{}, ids: map[string]bool{}, gc: tb.State.GameCount, seatTaken: map[int]bool{}}
	s.table, _ = tb.GetJSON()
	s.sm = m.smJSON()
	for _, p := range tb.State.PlayerStates {
		s.bank[p.PlayerID] = p.Bankroll
		s.ids[p.PlayerID] = true
		s.seatTaken[p.Seat] = true
	}
	s.roster = rosterOf(tb)
	s.inHand = tb.State.GameState != nil || tb.State.Status == pt.TableStateStatus_TableGameOpened
	return s
}

// topupInvoke registers a buy-in / re-buy / add-on as in flight (its effect may become visible in
// snapshots published before the call returns).
func (m *tableMon) topupInvoke(id string, amt int64) *topup {
	tu := &topup{id: id, amt: amt, invokeSeq: m.c.Seq(), atMs: m.c.NowMs()}
	m.topups = append(m.topups, tu)
	return tu
}

func (m *tableMon) memberAfter(kind string, before, after *memberSnap, atomic bool, err error, joins []pt.JoinPlayer, leaves []string, tu *topup) {
	c := m.c
	m.lastMemberOpMs = c.NowMs()
	if err == nil && len(joins) > 0 {
		// chips arrived: the number of players with chips may have crossed the table minimum between two
		// looks of the auditor, so "the pause condition has held ever since the settlement" is no longer known
		m.obligedPause = false
	}
	tb := m.w.eng.GetTable()
	retSeq := c.Seq()
	if !atomic {
		// the call had to wait for the engine lock: before/after are not a before/after picture of it
		c.Inconc("not_atomic")
	}
	if tu != nil && (kind == "reserve" || kind == "redeem") {
		if err != nil || !before.ids[tu.id] {
			// refused, or a first buy-in (not a top-up of an existing bankroll): forget it
			for i, x := range m.topups {
				if x == tu {
					m.topups = append(m.topups[:i], m.topups[i+1:]...)
					break
				}
			}
			tu = nil
		} else {
			tu.returnSeq = retSeq
		}
	}
	if err != nil && atomic && kind == "reserve" && len(joins) == 1 {
		// C03(c): a reservation that is valid on the state it met must succeed (a vacated seat can be
		// taken again; a table that is not full accepts a random seat)
		jp := joins[0]
		n := tb.Meta.TableMaxSeatCount
		valid := !before.ids[jp.PlayerID] && len(before.ids) < n && (jp.Seat == -1 || (jp.Seat >= 0 && jp.Seat < n && !before.seatTaken[jp.Seat]))
		c.Judged("C03.reserve_validity")
		if valid {
			c.Viol("C03", "C03.valid_reserve_refused", map[string]any{"random_seat": jp.Seat == -1}, "reservation of new player %s (seat %d) was refused (%v) although the table has %d of %d seats occupied and the seat is free: %s", jp.PlayerID, jp.Seat, err, len(before.ids), n, before.sm)
		}
	}
	if err != nil && !atomic && kind == "update" && len(leaves) > 0 {
		// not a before/after picture, but players named in the leave list that were seated and are gone
		// although the call failed can only have been removed by this call (one admin task)
		gone := true
		for _, id := range leaves {
			if !before.ids[id] || after.ids[id] || m.leaveNamed[id] != 1 {
				gone = false // (a departure requested by another task as well proves nothing about this call)
			}
		}
		if gone {
			m.ledgerOff = "a refused batch update had already removed players (their chips left with them)"
			c.Viol("C03", "C03.failed_op_left_trace", map[string]any{"op": kind, "part": "table", "leaves_applied_joins_refused": true}, "%s returned %v but the players %v named in its leave list have been removed", kind, err, leaves)
		}
	}
	if err != nil {
		// a refused departure request no longer explains a later absence of the players it named
		defer func() {
			for _, id := range leaves {
				if m.leaveNamed[id] > 0 {
					m.leaveNamed[id]--
				}
			}
		}()
		if atomic {
			c.Judged("C03.member_op")
			if after.table != before.table {
				facts := map[string]any{"op": kind, "part": "table"}
				if kind == "update" {
					gone := len(leaves) > 0
					for _, id := range leaves {
						if after.ids[id] {
							gone = false
						}
					}
					facts["leaves_applied_joins_refused"] = gone
					if gone {
						m.ledgerOff = "a refused batch update had already removed players (their chips left with them)"
					}
				}
				c.Viol("C03", "C03.failed_op_left_trace", facts, "%s returned %v but the table changed: %s", kind, err, firstDiff(before.table, after.table))
			} else if after.sm != before.sm {
				c.Viol("C03", "C03.failed_op_left_trace", map[string]any{"op": kind, "part": "seat_manager"}, "%s returned %v but the seat manager changed: %s => %s", kind, err, before.sm, after.sm)
			}
		}
		c.Probe("member_op_refused")
		return
	}
	if atomic {
		c.Judged("C03.member_op")
		m.tableInvariants(tb, kind)
		m.checkSMAgreement(tb, kind, true)
	}
	for _, jp := range joins {
		m.in += jp.RedeemChips
		if before.ids[jp.PlayerID] {
			if kind == "update" {
				m.topups = append(m.topups, &topup{id: jp.PlayerID, amt: jp.RedeemChips, invokeSeq: before.seq, returnSeq: retSeq})
			}
			if before.inHand {
				c.Probe("topup_while_hand_in_progress")
			}
		} else {
			m.seatedAtGC[jp.PlayerID] = after.gc
		}
	}
	for _, id := range leaves {
		bank := before.bank[id]
		if !atomic {
			// the bankroll immediately before the leave is unknown: stop the ledger
			m.ledgerOff = "leave overlapped other engine activity"
		}
		m.out += bank
		delete(m.missedHands, id)
		if m.departedAtGC == nil {
			m.departedAtGC = map[string]int{}
		}
		m.departedAtGC[id] = after.gc // whoever comes back under this id is a new arrival
		inRoster := before.inHand && indexOf(before.roster, id) >= 0
		if m.cur != nil && m.cur.settled == nil && indexOf(m.cur.roster, id) >= 0 {
			inRoster = true
		}
		if inRoster {
			if m.cur != nil && m.cur.settled == nil {
				m.cur.tainted = "dealt-in player " + id + " left while the hand was running"
				m.cur.leftMidHand = true
			}
			m.ledgerOff = "dealt-in player left mid-hand"
			c.Probe("dealt_in_player_left_mid_hand")
		}
	}
}

// checkSMAgreement: seat map, player list and seat manager name the same occupant with the same
// seated-in flag (C03). immediate=false is used by the auditor (mismatch must persist).
func (m *tableMon) checkSMAgreement(tb *pt.Table, where string, immediate bool) string {
	sm := pt.VerifSeatManager(m.w.eng)
	if sm == nil {
		return ""
	}
	n := tb.Meta.TableMaxSeatCount
	seats := sm.Seats()
	bad := ""
	for s := 0; s < n; s++ {
		var tid string
		tin := false
		if idx := tb.State.SeatMap[s]; idx >= 0 && idx < len(tb.State.PlayerStates) {
			tid = tb.State.PlayerStates[idx].PlayerID
			tin = tb.State.PlayerStates[idx].IsIn
		}
		sid := ""
		sin := false
		if sp := seats[s]; sp != nil {
			sid = sp.ID
			sin = sp.IsIn
		}
		if tid != sid {
			bad = fmt.Sprintf("seat %d: table says %q, seat manager says %q", s, tid, sid)
			break
		}
		if tid != "" && tin != sin {
			bad = fmt.Sprintf("seat %d (%s): table seated-in=%v, seat manager seated-in=%v", s, tid, tin, sin)
			break
		}
	}
	for k, sp := range seats {
		if (k < 0 || k >= n) && sp != nil {
			bad = fmt.Sprintf("seat manager holds %s on seat %d outside the table", sp.ID, k)
		}
	}
	if bad != "" && immediate {
		// an engine-internal join may be half way (table flag set, seat manager not yet): only
		// occupant mismatches are definite right after a locked membership operation
		if len(bad) > 0 && !containsStr(bad, "seated-in=") {
			m.c.Viol("C03", "C03.sm_table_disagree", map[string]any{"where": where}, "after %s: %s", where, bad)
		}
	}
	return bad
}

func containsStr(s, sub string) bool {
	for i := 0; i+len(sub) <= len(s); i++ {
		if s[i:i+len(sub)] == sub {
			return true
		}
	}
	return false
}

// ---- auditor -------------------------------------------------------------------------------------

func (m *tableMon) persist(key, val string) bool {
	if m.auditPrev == nil {
		m.auditPrev = map[string]string{}
	}
	prev := m.auditPrev[key]
	m.auditPrev[key] = val
	return val != "" && prev == val
}

func (m *tableMon) audit() {
	c := m.c
	w := m.w
	tb := w.eng.GetTable()
	if tb == nil {
		return
	}
	st := tb.State
	now := c.NowMs()
	m.checkEnginePanics(tb)
	m.lockQueueProbes()
	if hp := m.pendingSettleHand; hp != nil && (st.Status != pt.TableStateStatus_TableGameSettled || st.GameCount != hp.k) {
		m.flushSettlement()
		c.Logf("LOCKS at horizon: %s", c.Sch.LockState())
	}
	quietMember := w.memberInFlight == 0
	// C03: persistent disagreement between table and seat manager
	if quietMember {
		c.Judged("C03.audit")
		bad := m.checkSMAgreement(tb, "audit", false)
		if m.persist("sm", bad) {
			c.Viol("C03", "C03.sm_table_disagree", map[string]any{"where": "audit"}, "persisting with no membership operation in flight: %s", bad)
		}
	} else {
		m.persist("sm", "")
	}
	noHand := st.GameState == nil && st.Status != pt.TableStateStatus_TableGameOpened && st.Status != pt.TableStateStatus_TableGamePlaying && st.Status != pt.TableStateStatus_TableGameSettled
	// C01(a): ledger
	if noHand && w.ledgerInFlight == 0 && m.ledgerOff == "" {
		var sum int64
		for _, p := range st.PlayerStates {
			sum += p.Bankroll
		}
		c.Judged("C01.ledger")
		val := ""
		if sum != m.in-m.out {
			val = fmt.Sprintf("%d|%d|%d", sum, m.in, m.out)
		}
		if m.persist("ledger", val) {
			c.Viol("C01", "C01.ledger", map[string]any{"chips": map[bool]string{true: "created", false: "destroyed"}[sum > m.in-m.out]},
				"no hand in progress: bankrolls sum to %d but %d were brought in and %d taken out (difference %+d) after hand %d", sum, m.in, m.out, sum-(m.in-m.out), st.GameCount)
		}
	} else {
		m.persist("ledger", "")
	}
	// C07: per-hand fields reset between hands
	if st.Status == pt.TableStateStatus_TableGameStandby && m.lifecycleOff == "" {
		c.Judged("C07.standby_reset")
		val := ""
		zero := pt.NewPlayerGameStatistics()
		switch {
		case st.GameState != nil:
			val = "hand state present"
		case len(st.GamePlayerIndexes) != 0:
			val = "player list of the hand not empty"
		case st.CurrentActionEndAt != 0:
			val = "action deadline set"
		case st.LastPlayerGameAction != nil:
			val = "last action set"
		}
		for _, p := range st.PlayerStates {
			if len(p.Positions) != 0 && val == "" {
				val = "labels of " + p.PlayerID + " not cleared"
			}
			if p.GameStatistics != zero && val == "" {
				val = "statistics of " + p.PlayerID + " not cleared"
			}
		}
		if m.persist("reset", val) {
			prop, oracle := "C07", "C07.not_reset"
			if containsStr(val, "deadline") {
				c.Viol("C15", "C15.not_cleared", map[string]any{"when": "standby"}, "between hands (standby after hand %d): %s", st.GameCount, val)
			}
			c.Viol(prop, oracle, map[string]any{"field": val[:min(len(val), 12)]}, "between hands (standby after hand %d): %s", st.GameCount, val)
		}
	} else {
		m.persist("reset", "")
	}
	// C08: wedge. The premises must have held continuously since the settlement (the statement
	// evaluates them when the continue interval elapses; membership may change afterwards).
	if m.waitingNext && st.Status == pt.TableStateStatus_TableGameStandby && m.c08off == "" && !m.engineFailed && len(m.blinds) == 0 {
		open, pause := m.continueConditions(tb)
		m.obligedOpen = m.obligedOpen && open
		m.obligedPause = m.obligedPause && pause
		deadline := m.lastSettledMs + int64(w.cfg.interval)*1000 + specOpenGameTimeoutS*1000 + specSlackMs + m.extraMs + w.be.SleptMs
		if m.lastMemberOpMs > m.lastSettledMs {
			// a membership change at the instant the gate fired may have made that attempt fail for
			// lack of two seated-in players; the engine retries every 3 s (for 30 s)
			if d := m.lastMemberOpMs + 3000 + specSlackMs + m.extraMs; d > deadline {
				deadline = d
			}
			if m.lastMemberOpMs > m.lastSettledMs+int64(w.cfg.interval)*1000+specOpenGameTimeoutS*1000+29000 {
				m.obligedOpen = false // the retries are over; nothing re-triggers an open
			}
		}
		if now > deadline && m.obligedOpen {
			c.Judged("C08.progress")
			parts := -1
			if g := pt.VerifOpenGameManager(w.eng); g != nil {
				parts = len(g.GetState().Participants)
			}
			smLive, smActive := 0, 0
			if sm := pt.VerifSeatManager(w.eng); sm != nil {
				for _, sp := range sm.Seats() {
					if sp != nil && sp.IsIn && sp.HasChips {
						smLive++
						if sp.Active() {
							smActive++
						}
					}
				}
			}
			if m.persist("wedge", fmt.Sprint(st.GameCount)) {
				c.Viol("C08", "C08.wedge_standby", map[string]any{"gate_has_two_participants": parts >= 2, "rotation_blocked_by_waiting_flags": smLive >= 2 && smActive < 2},
					"hand %d settled at %dms, continue interval %ds, open-game timeout %ds: at %dms the table is still in standby although at least two seated-in players have had chips ever since (gate participants %d)",
					st.GameCount, m.lastSettledMs, w.cfg.interval, specOpenGameTimeoutS, now, parts)
			}
		} else if now > deadline && m.obligedPause {
			if m.persist("nopause", fmt.Sprint(st.GameCount)) {
				c.Viol("C08", "C08.did_not_pause", nil, "hand %d settled at %dms; the pause condition (break, or fewer players with chips than the minimum %d) has held ever since, but the table is still in standby at %dms", st.GameCount, m.lastSettledMs, tb.Meta.TableMinPlayerCount, now)
			}
		}
	} else {
		m.persist("wedge", "")
		m.persist("nopause", "")
	}
	// C11: a request phase that should have ended
	if h := m.cur; h != nil && h.settled == nil && h.phase != nil && !h.phase.closed && h.tainted == "" {
		ph := h.phase
		m.collectAnswers(h, ph)
		due := ph.t0 + specResponseTimeoutS*1000
		all := len(ph.asked) > 0
		last := ph.t0
		for id := range ph.asked {
			if ta, ok := ph.answered[id]; ok {
				if ta > last {
					last = ta
				}
			} else {
				all = false
			}
		}
		if all {
			due = last
		}
		if len(ph.asked) > 0 && now > due+specSlackMs+ph.allowMs+w.be.SleptMs+m.extraMs {
			if m.persist("phase", fmt.Sprintf("%d|%s", h.k, ph.event)) {
				c.Viol("C11", "C11.did_not_advance", map[string]any{"phase": ph.event, "all_answered": all}, "hand %d %s: everyone asked had answered (or the %ds response timeout had passed) at %dms but at %dms the hand has not moved on", h.k, ph.event, specResponseTimeoutS, due, now)
			}
		}
	} else {
		m.persist("phase", "")
	}
	// C13: whenever no backend call is in flight, the engine's hand state is the state returned by the
	// last successful backend call (a failed step must not have changed - or rolled back - the hand)
	if g := w.eng.GetGame(); g != nil && w.be.inFlight == 0 && w.be.lastOK != "" && st.GameState != nil && m.cur != nil && m.cur.settled == nil {
		c.Judged("C13.hand_state_is_latest")
		val := ""
		if gs := g.GetGameState(); gs != nil && gs.GameID == st.GameState.GameID && normState(gs) != w.be.lastOK {
			val = gs.Status.CurrentEvent + "/" + gs.Status.Round
		}
		if m.persist("c13latest", val) {
			c.Viol("C13", "C13.hand_state_not_latest", map[string]any{"after_failure": len(w.be.calls) > 0 && w.be.anyFailed}, "with no backend call in flight the engine's hand state (%s) is not the state returned by the last successful backend call (%s)", val, w.be.lastKind)
		}
	} else {
		m.persist("c13latest", "")
	}
	// C13: engine-driven failures must be reported through the error callback
	for _, f := range m.pendingEngineFaults {
		if !f.matched && now > f.atMs+specSlackMs && f.kind != "CreateGame" {
			f.matched = true
			c.Viol("C13", "C13.engine_step_error_lost", map[string]any{"kind": f.kind}, "backend call #%d %s (performed by the engine itself) failed at %dms but no table error notification followed", f.ord, f.kind, f.atMs)
		}
	}
}

func (m *tableMon) atHorizon() {
	c := m.c
	w := m.w
	h := m.cur
	now := c.NowMs()
	m.flushSettlement()
	if h != nil && h.settled == nil && h.tainted == "" && m.extTainted == "" && !m.engineFailed {
		since := h.openMs
		if w.cfg.faultEndMs > since {
			since = w.cfg.faultEndMs
		}
		responsive := true
		for _, id := range h.roster {
			if cl, ok := w.clients[id]; !ok || cl.gone {
				responsive = false
			}
		}
		if now-since >= 60_000 && responsive {
			c.Judged("C11.hand_finishes")
			ev := ""
			if tb := w.eng.GetTable(); tb != nil && tb.State.GameState != nil {
				ev = tb.State.GameState.Status.CurrentEvent + "/" + tb.State.GameState.Status.Round
			}
			c.Viol("C11", "C11.hand_not_finished", map[string]any{"stuck_at": ev}, "hand %d opened at %dms; all participants are responsive since %dms, but at %dms it has not been settled (stuck at %s, last event %s)", h.k, h.openMs, since, now, ev, h.lastEvent)
		}
	}
	if h != nil && h.settled != nil {
		c.Judged("C11.hand_finishes")
	}
}

// checkEnginePanics: a panic in one of the engine's own goroutines (timer callbacks, ready-group
// completions, the state updater) ends the whole process in a deployment - no recover exists in the
// library. The simulator recovers it per task so that the run can be examined; the liveness
// properties then judge it: a hand in progress can no longer finish (C11), between hands the table
// can no longer deal on (C08).
func (m *tableMon) checkEnginePanics(tb *pt.Table) {
	c := m.c
	ps := c.Sch.Panics()
	for m.panicsSeen < len(ps) {
		p := ps[m.panicsSeen]
		m.panicsSeen++
		fn := ""
		for _, fr := range strings.Split(p.Stack, " | ") {
			if strings.HasPrefix(fr, "github.com/weedbox/pokertable.") {
				fn = strings.TrimPrefix(fr, "github.com/weedbox/pokertable.")
				if i := strings.Index(fn, "("); i > 0 && !strings.HasPrefix(fn, "(") {
					fn = fn[:i]
				} else if strings.HasPrefix(fn, "(") {
					// (*tableEngine).playersAutoIn.func2(0x...)
					if j := strings.LastIndex(fn, "("); j > 0 {
						fn = fn[:j]
					}
				}
				break
			}
		}
		if fn == "" {
			continue // not in the engine's code (harness task): reported as infrastructure trouble elsewhere
		}
		h := m.cur
		inHand := h != nil && h.settled == nil
		left := inHand && h.leftMidHand
		if inHand {
			for _, id := range h.roster {
				if m.leavers[id] { // departure requested (possibly still in flight)
					left = true
				}
			}
		}
		facts := map[string]any{"in": fn, "dealt_in_player_left_mid_hand": left, "external_pause_or_close_request": m.extTainted != ""}
		c.Logf("ENGINE PANIC in %s (task %s): %s", fn, p.Task, p.Value)
		if traceLive {
			fmt.Fprintf(os.Stderr, "ENGINE PANIC stack:\n%s\n", p.Stack)
		}
		if strings.Contains(fn, "settleGame") {
			// the settlement died while crediting the results: entries were not (all) credited to their players
			c.Viol("C02", "C02.settlement_crashed", facts, "the settlement of hand %d panicked in %s: %s - results were not credited to the players the entries denote", func() int {
				if h != nil {
					return h.k
				}
				return -1
			}(), fn, p.Value)
		}
		if inHand {
			c.Viol("C11", "C11.engine_goroutine_panicked", facts, "hand %d in progress: the engine goroutine %s panicked in %s: %s (a process crash in a deployment: the hand cannot finish)", h.k, p.Task, fn, p.Value)
		} else {
			c.Viol("C08", "C08.engine_goroutine_panicked", facts, "between hands: the engine goroutine %s panicked in %s: %s (a process crash in a deployment: the table cannot deal on)", p.Task, fn, p.Value)
		}
	}
}
