package sim

import (
	"fmt"
	"sort"
	"strings"

	"github.com/weedbox/pokerface"
	pt "github.com/weedbox/pokertable"
	"verif.local/simrt"
)

// tableMon: observation of one table and the monitors of C01..C15 that judge it.
// Everything here runs on whichever task the engine used to invoke a callback, or on a harness
// task; harness statement sites are masked, so a monitor is never preempted in the middle.

type actRec struct {
	id, action string
	amt        int64
	ok         bool
	atMs       int64
	round      string
	evKey      string // request the hand engine was at when the call was made ("?" unknown)
	pending    bool   // interleaved call still in flight
}

type topup struct {
	atMs      int64
	id        string
	amt       int64
	invokeSeq int64
	returnSeq int64
}

type phaseRec struct {
	event    string
	round    string
	t0       int64
	asked    map[string]bool
	answered map[string]int64 // id -> time of first accepted answer
	allowMs  int64            // extra allowance (injected slowness)
	closed   bool
	from     int64
	maybe    map[string]bool // answered by a call whose attribution is unknown (not atomic)
}

type handRec struct {
	k                int
	openSeq          int64
	openMs           int64
	open             *pt.Table
	roster           []string
	seatOf           map[string]int
	bankAtOpen       map[string]int64
	firstGS          *pt.Table
	firstGSSeq       int64
	gameID           string
	settled          *pt.Table
	settledMs        int64
	settledSeq       int64
	actions          []actRec
	actionsP         []*actRec // calls made non-atomically (pending while in flight)
	phase            *phaseRec
	lastEvent        string
	eventsSeen       int
	tainted          string // reason why liveness / accounting oracles are disarmed for this hand
	gbsChecked       bool
	stacksJudged     bool
	leftMidHand      bool
	slowMs           int64
	gbsFirst         *pt.TableBlindState
	recordUnreliable bool // some call for this hand was not atomic: the harness record may lag the engine
	phaseFrom        int64
	beWagers         map[int]*[4]int // per game index: wager steps the backend applied (all, calls, checks, folds)
	settledFinal     bool            // the settlement verdict has been taken
	pendingSettle    []CapturedViol
	settleEvalByTask map[string][]CapturedViol
}

type blindUpd struct {
	b         blindRec
	invokeSeq int64
	returnSeq int64
}

type tableMon struct {
	w *tableWorld
	c *Ctx

	hands        map[int]*handRec
	cur          *handRec
	lastOpened   int
	handsOpened  int
	handsSettled int
	gameIDs      map[string]int

	lastStatus   string
	lifecycleOff string

	// ledger
	in, out      int64
	topups       []*topup
	ledgerOff    string
	lastAuditSum int64

	blinds             []*blindUpd
	initialBlind       blindRec
	extendInFlight     bool
	extendedKey        string
	anyNotAtomicAction bool
	lastTurnKey        string
	turnAt             int64
	lastExtAtMs        int64
	lastExtD           int64
	extCalls           []*extCall
	turnOwn            bool
	rgStuck            int
	departedAtGC       map[string]int
	rgStuckReported    bool
	snapByTask         map[string]turnSnap
	extensions         map[string]extRec
	turnStale          int64
	lastDeadlineSeen   int64
	turnOK             bool
	turnOpen           bool
	turnDesc           string
	auditPrev          map[string]string

	// C08
	lastSettledMs  int64
	lastMemberOpMs int64
	waitingNext    bool
	extraMs        int64 // injected slowness since the last settlement
	c08off         string

	missedHands map[string]int
	everDealt   map[string]bool
	seatedAtGC  map[string]int

	pendingEngineFaults []*beCall
	engineFailed        bool
	actionEvents        []pt.TablePlayerGameAction
	errEvents           int
	reserved            map[string]int
	extTainted          string
	panicsSeen          int
	leaveNamed          map[string]int
	pendingSettleHand   *handRec
	leavers             map[string]bool
	obligedOpen         bool // since the last settlement: >= 2 seated-in players with chips and no pause condition, continuously
	obligedPause        bool // since the last settlement: pause condition, continuously
}

func newTableMon(w *tableWorld) *tableMon {
	return &tableMon{w: w, c: w.c, hands: map[int]*handRec{}, gameIDs: map[string]int{}, missedHands: map[string]int{}, everDealt: map[string]bool{}, seatedAtGC: map[string]int{}, reserved: map[string]int{}}
}

func playerLine(t *pt.Table) string {
	var sb strings.Builder
	for _, p := range t.State.PlayerStates {
		f := ""
		if p.IsParticipated {
			f += "P"
		}
		if !p.IsIn {
			f += "(out)"
		}
		fmt.Fprintf(&sb, " %s@%d:%d%s%v", p.PlayerID, p.Seat, p.Bankroll, f, p.Positions)
	}
	return sb.String()
}

func (m *tableMon) onCreated(t *pt.Table, pre []pt.JoinPlayer, startBreak bool) {
	for _, p := range pre {
		m.in += p.RedeemChips
	}
	if startBreak {
		m.c.Judged("C12.created_on_break")
		if t.State.Status != pt.TableStateStatus_TablePausing {
			m.c.Viol("C12", "C12.created_on_break_not_paused", nil, "table created on a break has status %s", t.State.Status)
		}
	}
}

// ---- admin bookkeeping ---------------------------------------------------------------------------

// lockQueueProbes: coverage of "the engine's own step waits for the engine lock" situations.
func (m *tableMon) lockQueueProbes() {
	stuck := false
	for _, fn := range m.c.Sch.LockWaiters() {
		if strings.Contains(fn, "ReadyGroup.defValidate") {
			stuck = true
		}
	}
	if !stuck {
		m.rgStuck = 0
	} else if m.rgStuck++; m.rgStuck == 8 && !m.rgStuckReported {
		// syncsaga's ReadyGroup.validate holds its RWMutex for reading and calls defValidate, which
		// takes it for reading again; with a writer queued in between (Add from a reservation,
		// updateState) the second read lock waits for the writer, the writer for the first read lock.
		// Two seconds of simulated time without progress: a deadlock, not a delay.
		m.rgStuckReported = true
		h := m.cur
		facts := map[string]any{"in": "syncsaga.ReadyGroup.validate", "recursive_read_lock": true}
		if h != nil && h.settled == nil {
			m.c.Viol("C11", "C11.ready_group_deadlocked", facts, "hand %d in progress: a ready group's loop is deadlocked on its own RWMutex (read lock taken twice with a writer queued in between); callers of that group hang, one of them holding the engine lock", h.k)
		} else {
			m.c.Viol("C08", "C08.ready_group_deadlocked", facts, "between hands: a ready group's loop is deadlocked on its own RWMutex (read lock taken twice with a writer queued in between); callers of that group hang, one of them holding the engine lock")
		}
		// the table is frozen for good: nothing more can be learned from this run
		m.c.stopped = true
		m.c.Sch.RequestStop()
	}
	for _, fn := range m.c.Sch.LockWaiters() {
		switch {
		case strings.Contains(fn, "settleGame"):
			m.c.Probe("settlement_waits_for_engine_lock")
		case strings.Contains(fn, "resetTableForNextGame"):
			m.c.Probe("reset_waits_for_engine_lock")
		case strings.Contains(fn, "updateCurrentPlayerGameStatistics"):
			m.c.Probe("updater_waits_for_engine_lock")
			if m.c.Job.DumpLog && m.c.NowMs()%5000 == 0 {
				m.c.Logf("LOCKS: %s", m.c.Sch.LockState())
			}
		}
	}
}

func (m *tableMon) adminEvent(kind string) {
	switch kind {
	case "pause", "close", "release":
		for _, fn := range m.c.Sch.LockWaiters() {
			if strings.Contains(fn, "tableGameOpen") {
				m.c.Probe(kind + "_while_open_trigger_waits_for_engine_lock")
			}
		}
		m.lifecycleOff = "external " + kind
		m.c08off = "external " + kind
		m.extTainted = kind
		if m.cur != nil && m.cur.settled == nil {
			m.cur.tainted = "external " + kind + " request while the hand was running"
		}
	}
}

func (m *tableMon) leaveInvoked(ids []string) {
	if m.leavers == nil {
		m.leavers = map[string]bool{}
	}
	if m.leaveNamed == nil {
		m.leaveNamed = map[string]int{}
	}
	for _, id := range ids {
		m.leavers[id] = true
		m.leaveNamed[id]++
	}
}

// rosterLossExplained: every player missing from the hand's player list was the subject of a leave request.
func (m *tableMon) rosterLossExplained(h *handRec, now []string) bool {
	if len(now) >= len(h.roster) {
		return false
	}
	for _, id := range h.roster {
		if indexOf(now, id) < 0 && !m.leavers[id] {
			return false
		}
	}
	return true
}

func (m *tableMon) blindInvoke(b blindRec) {
	m.blinds = append(m.blinds, &blindUpd{b: b, invokeSeq: m.c.Seq()})
}
func (m *tableMon) blindReturn(b blindRec) {
	m.blinds[len(m.blinds)-1].returnSeq = m.c.Seq()
}

func (m *tableMon) engineStepFailed(call *beCall) {
	m.pendingEngineFaults = append(m.pendingEngineFaults, call)
	m.engineFailed = true
	if m.cur != nil {
		m.cur.tainted = "engine-driven backend step failed"
	}
}

func (m *tableMon) onErrorEvent(err error) {
	m.errEvents++
	m.c.Logf("ERROR-EVENT %v", err)
	if err != nil && err.Error() == errInjected.Error() {
		for _, f := range m.pendingEngineFaults {
			if !f.matched {
				f.matched = true
				m.c.Judged("C13.engine_step_error_reported")
				break
			}
		}
	}
}

func (m *tableMon) onStateEvent(ev, status string, gc int) {
	m.lifecycle(status, gc, "state:"+ev)
	if ev == pt.TableStateEvent_GameUpdated {
		m.engineOwnPublication()
	}
	if ev == pt.TableStateEvent_GameSettled {
		m.engineOwnSettlement()
	}
}

func (m *tableMon) onActionEvent(a pt.TablePlayerGameAction) {
	m.actionEvents = append(m.actionEvents, a)
}

func (m *tableMon) onReserved(id string, seat int) { m.reserved[id] = seat }

func (m *tableMon) onSettlementFinish(id string, gc int, err error) {
	m.c.Logf("SETTLEMENT-FINISH %s gc=%d -> %v", id, gc, err)
}

// ---- snapshots -------------------------------------------------------------------------------------

func (m *tableMon) onSnapshot(t *pt.Table, seq int64) {
	c := m.c
	st := t.State
	ev := ""
	if st.GameState != nil {
		ev = st.GameState.Status.CurrentEvent + "/" + st.GameState.Status.Round
	}
	defer func() { m.lastDeadlineSeen = st.CurrentActionEndAt }()
	delete(m.snapByTask, simrt.CurName())
	c.Logf("SNAP #%d %s gc=%d %s D%d/SB%d/BB%d gpi=%v end=%d |%s", t.UpdateSerial, st.Status, st.GameCount, ev, st.CurrentDealerSeat, st.CurrentSBSeat, st.CurrentBBSeat, st.GamePlayerIndexes, st.CurrentActionEndAt, playerLine(t))
	m.tableInvariants(t, "snapshot")
	m.lifecycle(string(st.Status), st.GameCount, "snapshot")
	if hp := m.pendingSettleHand; hp != nil && (st.Status != pt.TableStateStatus_TableGameSettled || st.GameCount != hp.k) {
		m.flushSettlement()
	}
	switch {
	case st.Status == pt.TableStateStatus_TableGameOpened && st.GameState == nil:
		if _, seen := m.hands[st.GameCount]; !seen || st.GameCount != m.lastOpened {
			m.onOpened(t, seq)
		}
	case st.Status == pt.TableStateStatus_TableGameSettled:
		m.onSettled(t, seq)
	case st.GameState != nil:
		// a hand is running (whatever the table status: an external pause/close may have changed it)
		m.onHandSnapshot(t, seq)
	}
	if st.Status == pt.TableStateStatus_TablePausing {
		m.onPausing(t)
	}
}

// C03 (table-internal part): seat map and player list are two views of one bijection.
func (m *tableMon) tableInvariants(t *pt.Table, where string) bool {
	c := m.c
	st := t.State
	n := t.Meta.TableMaxSeatCount
	c.Judged("C03.table_invariants")
	if len(st.SeatMap) != n {
		c.Viol("C03", "C03.seatmap_length", map[string]any{"where": where}, "seat map has %d entries for %d seats", len(st.SeatMap), n)
		return false
	}
	ids := map[string]int{}
	for i, p := range st.PlayerStates {
		if j, dup := ids[p.PlayerID]; dup {
			c.Viol("C03", "C03.duplicate_player", map[string]any{"where": where}, "player %s appears twice in the player list (entries %d and %d)", p.PlayerID, j, i)
			return false
		}
		ids[p.PlayerID] = i
		if p.Seat < 0 || p.Seat >= n {
			c.Viol("C03", "C03.seat_out_of_range", map[string]any{"where": where}, "player %s has seat %d outside 0..%d", p.PlayerID, p.Seat, n-1)
			return false
		}
		if st.SeatMap[p.Seat] != i {
			c.Viol("C03", "C03.seatmap_player_mismatch", map[string]any{"where": where}, "player %s (entry %d) claims seat %d but the seat map says entry %d: seatmap=%v", p.PlayerID, i, p.Seat, st.SeatMap[p.Seat], st.SeatMap)
			return false
		}
	}
	for s, idx := range st.SeatMap {
		if idx < 0 {
			continue
		}
		if idx >= len(st.PlayerStates) || st.PlayerStates[idx].Seat != s {
			c.Viol("C03", "C03.seatmap_player_mismatch", map[string]any{"where": where}, "seat %d points to entry %d which does not sit there: seatmap=%v", s, idx, st.SeatMap)
			return false
		}
	}
	if len(st.PlayerStates) > n {
		c.Viol("C03", "C03.over_capacity", map[string]any{"where": where}, "%d players on a %d-seat table", len(st.PlayerStates), n)
		return false
	}
	return true
}

// C07: life-cycle automaton.
var lcAllowed = map[string][]string{
	"table_created":      {"table_balancing", "table_pausing", "table_game_opened"},
	"table_balancing":    {"table_created", "table_pausing", "table_game_opened"},
	"table_pausing":      {"table_game_opened", "table_created", "table_balancing"},
	"table_game_opened":  {"table_game_playing"},
	"table_game_playing": {"table_game_settled"},
	"table_game_settled": {"table_game_standby", "table_game_opened", "table_pausing"},
	"table_game_standby": {"table_game_opened", "table_pausing"},
}

func (m *tableMon) lifecycle(status string, gc int, src string) {
	c := m.c
	prev := m.lastStatus
	m.lastStatus = status
	if prev == "" || prev == status {
		return
	}
	if m.lifecycleOff != "" {
		return
	}
	c.Judged("C07.transition")
	ok := false
	for _, s := range lcAllowed[prev] {
		if s == status {
			ok = true
		}
	}
	if !ok {
		c.Viol("C07", "C07.illegal_transition", map[string]any{"from": prev, "to": status}, "status moved %s -> %s (seen via %s, game count %d) with no external pause/close request", prev, status, src, gc)
	}
}

func dealtIn(t *pt.Table) map[string]bool {
	out := map[string]bool{}
	for _, p := range t.State.PlayerStates {
		if p.IsParticipated {
			out[p.PlayerID] = true
		}
	}
	return out
}

func cwBetween(d, b, s, n int) bool {
	if d < 0 || b < 0 || n <= 0 {
		return false
	}
	for x := (d + 1) % n; x != b; x = (x + 1) % n {
		if x == s {
			return true
		}
		if x == d {
			break
		}
	}
	return false
}

func (m *tableMon) onOpened(t *pt.Table, seq int64) {
	c := m.c
	st := t.State
	k := st.GameCount
	h := &handRec{k: k, openSeq: seq, openMs: c.NowMs(), open: t, roster: rosterOf(t), seatOf: map[string]int{}, bankAtOpen: map[string]int64{}}
	for _, p := range st.PlayerStates {
		h.seatOf[p.PlayerID] = p.Seat
		h.bankAtOpen[p.PlayerID] = p.Bankroll
	}
	prev := m.cur
	// ---- C07: numbering, one hand at a time, reset
	c.Judged("C07.open")
	if k != m.lastOpened+1 {
		c.Viol("C07", "C07.game_count_step", nil, "hand opened with game count %d after %d", k, m.lastOpened)
	}
	if prev != nil && prev.settled == nil && prev.tainted == "" {
		c.Viol("C07", "C07.open_while_unsettled", nil, "hand %d opened while hand %d has not been settled", k, prev.k)
	}
	if st.LastPlayerGameAction != nil || st.CurrentActionEndAt != 0 {
		c.Viol("C07", "C07.not_reset", map[string]any{"field": "last_action/deadline"}, "hand %d opens with last action %v / deadline %d left over", k, st.LastPlayerGameAction != nil, st.CurrentActionEndAt)
	}
	zero := pt.NewPlayerGameStatistics()
	for _, p := range st.PlayerStates {
		if p.GameStatistics != zero {
			c.Viol("C14", "C14.not_cleared", nil, "hand %d opens with statistics of %s not cleared: %+v", k, p.PlayerID, p.GameStatistics)
			break
		}
	}
	if m.w.closedAtMs > 0 || m.w.releasedAtMs > 0 {
		what := "closed"
		if m.w.releasedAtMs > 0 {
			what = "released"
		}
		c.Viol("C07", "C07.open_after_close", map[string]any{"what": what}, "hand %d opened at %dms although the table was %s between hands at %dms", k, c.NowMs(), what, m.w.closedAtMs+m.w.releasedAtMs)
	}
	if st.BlindState.Level == -1 {
		c.Viol("C12", "C12.opened_on_break", nil, "hand %d opened while the published blind level is a break", k)
	}
	if st.BlindState.Level == 0 {
		c.Viol("C07", "C07.opened_without_blinds", nil, "hand %d opened before blinds are set (level 0)", k)
	}
	m.lastOpened = k
	m.handsOpened++
	m.hands[k] = h
	m.cur = h
	m.waitingNext = false
	// ---- C02: roster
	m.checkRosterAtOpen(h)
	// ---- C05
	m.checkDealtIn(h, prev)
	// ---- C06
	m.checkLabels(h)
	// ---- C08: opened although the table should have paused (only when nobody else touches membership)
	if prev != nil && !m.w.cfg.admin && m.c08off == "" {
		alive := 0
		for _, p := range st.PlayerStates {
			if p.Bankroll > 0 {
				alive++
			}
		}
		c.Judged("C08.open_condition")
		if alive < t.Meta.TableMinPlayerCount {
			c.Viol("C08", "C08.opened_below_minimum", nil, "hand %d opened with %d players with chips, table minimum is %d", k, alive, t.Meta.TableMinPlayerCount)
		}
	}
}

func (m *tableMon) checkRosterAtOpen(h *handRec) {
	c := m.c
	t := h.open
	c.Judged("C02.roster_at_open")
	dealt := dealtIn(t)
	seen := map[string]bool{}
	for _, id := range h.roster {
		if seen[id] {
			c.Viol("C02", "C02.roster_duplicate", nil, "hand %d lists %s twice: %v", h.k, id, h.roster)
			return
		}
		seen[id] = true
		if !dealt[id] {
			c.Viol("C02", "C02.roster_not_dealt_in", nil, "hand %d lists %s who is not dealt in: %v", h.k, id, h.roster)
			return
		}
	}
	for id := range dealt {
		if !seen[id] {
			c.Viol("C02", "C02.roster_missing", nil, "dealt-in player %s is missing from the player list of hand %d: %v", id, h.k, h.roster)
			return
		}
	}
	// clockwise over one lap
	n := t.Meta.TableMaxSeatCount
	if len(h.roster) > 1 {
		start := h.seatOf[h.roster[0]]
		prevOff := -1
		for _, id := range h.roster {
			off := ((h.seatOf[id]-start)%n + n) % n
			if off <= prevOff {
				seats := []int{}
				for _, x := range h.roster {
					seats = append(seats, h.seatOf[x])
				}
				c.Viol("C02", "C02.roster_not_clockwise", map[string]any{"rule": t.Meta.Rule}, "player list of hand %d is not in clockwise seat order: seats %v", h.k, seats)
				return
			}
			prevOff = off
		}
	}
}

func (m *tableMon) checkDealtIn(h *handRec, prev *handRec) {
	c := m.c
	t := h.open
	st := t.State
	n := t.Meta.TableMaxSeatCount
	c.Judged("C05.open")
	dealt := dealtIn(t)
	if len(dealt) < 2 {
		c.Viol("C05", "C05.fewer_than_two", nil, "hand %d opened with %d dealt-in players", h.k, len(dealt))
		return
	}
	hu := st.CurrentDealerSeat == st.CurrentSBSeat
	shortDeck := t.Meta.Rule == pt.CompetitionRule_ShortDeck
	if !shortDeck && (st.CurrentDealerSeat == st.CurrentBBSeat || st.CurrentSBSeat == st.CurrentBBSeat) {
		c.Probe("c05_skipped_button_seats_not_distinct")
		return // KF-C04-2 territory: "between button and big blind" is meaningless when they coincide
	}
	if m.w.mon.extTainted != "" {
		return
	}
	smOK := true
	if sm := pt.VerifSeatManager(m.w.eng); sm != nil {
		seats := sm.Seats() // read without the seat manager's lock: the monitor must never block
		for _, p := range st.PlayerStates {
			a, found := false, false
			for _, sp := range seats {
				if sp != nil && sp.ID == p.PlayerID {
					a, found = sp.Active(), true
				}
			}
			if !found || a != p.IsParticipated {
				// read later than the engine computed the flags: a membership / chip operation may have
				// landed in between, so this is only a probe
				smOK = false
				c.Probe("seat_manager_flags_moved_on_since_open")
				break
			}
		}
	}
	_ = smOK
	for _, p := range st.PlayerStates {
		elig := p.IsIn && p.Bankroll > 0
		if dealt[p.PlayerID] && !elig {
			smIn := false
			if sm := pt.VerifSeatManager(m.w.eng); sm != nil {
				for _, sp := range sm.Seats() {
					if sp != nil && sp.ID == p.PlayerID {
						smIn = sp.IsIn
					}
				}
			}
			c.Viol("C05", "C05.dealt_in_ineligible", map[string]any{"seated_in": p.IsIn, "has_chips": p.Bankroll > 0, "seat_manager_says_seated_in": smIn}, "hand %d deals in %s who is seated-in=%v (seat manager: %v) with bankroll %d", h.k, p.PlayerID, p.IsIn, smIn, p.Bankroll)
			return
		}
		if prev != nil && prev.settled != nil && indexOf(prev.roster, p.PlayerID) >= 0 && elig && !dealt[p.PlayerID] && prev.tainted == "" {
			// continuity: dealt into the previous hand, still seated with chips
			stayed := true
			for _, q := range prev.settled.State.PlayerStates {
				if q.PlayerID == p.PlayerID && q.Bankroll == 0 {
					stayed = false // busted and re-bought: newcomer terms
				}
			}
			if gc, left := m.departedAtGC[p.PlayerID]; left && gc >= prev.k {
				stayed = false // left the table and came back: newcomer terms
			}
			if stayed {
				c.Viol("C05", "C05.lost_eligibility", nil, "%s was dealt into hand %d, still has chips and is seated, but is not dealt into hand %d", p.PlayerID, prev.k, h.k)
				return
			}
		}
		if elig && !dealt[p.PlayerID] {
			m.missedHands[p.PlayerID]++
			c.Probe("eligible_player_waits")
			between := cwBetween(st.CurrentDealerSeat, st.CurrentBBSeat, p.Seat, n)
			if !shortDeck && !hu && !between && len(dealt) >= 3 {
				c.Viol("C05", "C05.left_out_not_waiting", nil, "hand %d (D%d/SB%d/BB%d): %s at seat %d is seated-in with chips, not between button and big blind, but not dealt in", h.k, st.CurrentDealerSeat, st.CurrentSBSeat, st.CurrentBBSeat, p.PlayerID, p.Seat)
				return
			}
			if shortDeck {
				c.Viol("C05", "C05.left_out_not_waiting", map[string]any{"rule": "short_deck"}, "short deck hand %d: %s is seated-in with chips but not dealt in", h.k, p.PlayerID)
				return
			}
			if m.missedHands[p.PlayerID] > 3 {
				c.Viol("C05", "C05.waits_more_than_three", nil, "%s is seated-in with chips and has not been dealt into %d hands in a row (hand %d)", p.PlayerID, m.missedHands[p.PlayerID], h.k)
				return
			}
		} else {
			m.missedHands[p.PlayerID] = 0
		}
		if dealt[p.PlayerID] {
			// A player who was not dealt into the previous hand (newcomer, or back after a bust and
			// re-buy / sitting out) comes in on newcomer terms: not while the seat is strictly
			// between the button and the big blind.
			wasIn := prev != nil && indexOf(prev.roster, p.PlayerID) >= 0
			gcSeated, known := m.seatedAtGC[p.PlayerID]
			seatedLater := known && gcSeated >= 1 // given the seat after positions had been set
			if prev != nil && prev.k == h.k-1 && !wasIn && (m.everDealt[p.PlayerID] || seatedLater) && !shortDeck && !hu && len(dealt) >= 3 {
				c.Judged("C05.newcomer_first_hand")
				pst := prev.open.State
				if cwBetween(st.CurrentDealerSeat, st.CurrentBBSeat, p.Seat, n) && cwBetween(pst.CurrentDealerSeat, pst.CurrentBBSeat, p.Seat, n) && pst.CurrentDealerSeat != pst.CurrentSBSeat {
					c.Viol("C05", "C05.newcomer_did_not_wait", map[string]any{"returning_player": m.everDealt[p.PlayerID]}, "hand %d (D%d/SB%d/BB%d): %s at seat %d was not dealt into hand %d, sits strictly between button and big blind, but is dealt in", h.k, st.CurrentDealerSeat, st.CurrentSBSeat, st.CurrentBBSeat, p.PlayerID, p.Seat, prev.k)
					return
				}
				c.Probe("newcomer_dealt_in")
			}
			m.everDealt[p.PlayerID] = true
		}
	}
}

var stdLabels = map[int][]string{
	3:  {"dealer", "sb", "bb"},
	4:  {"dealer", "sb", "bb", "ug"},
	5:  {"dealer", "sb", "bb", "ug", "co"},
	6:  {"dealer", "sb", "bb", "ug", "hj", "co"},
	7:  {"dealer", "sb", "bb", "ug", "mp", "hj", "co"},
	8:  {"dealer", "sb", "bb", "ug", "ug2", "mp", "hj", "co"},
	9:  {"dealer", "sb", "bb", "ug", "ug2", "mp", "mp2", "hj", "co"},
	10: {"dealer", "sb", "bb", "ug", "ug2", "ug3", "mp", "mp2", "hj", "co"},
}

// C06: labels computed independently from the published button seats and the dealt-in set.
func (m *tableMon) checkLabels(h *handRec) {
	c := m.c
	t := h.open
	st := t.State
	if t.Meta.Rule != pt.CompetitionRule_Default {
		return
	}
	n := t.Meta.TableMaxSeatCount
	d, sb, bb := st.CurrentDealerSeat, st.CurrentSBSeat, st.CurrentBBSeat
	dealtAt := map[int]string{}
	for _, p := range st.PlayerStates {
		if p.IsParticipated {
			dealtAt[p.Seat] = p.PlayerID
		}
	}
	if bb < 0 || bb >= n || d < 0 || sb < 0 {
		return
	}
	if _, ok := dealtAt[bb]; !ok {
		return // C04's business
	}
	nd := len(dealtAt)
	hu := d == sb
	if !hu && (d == bb || sb == bb) {
		c.Probe("labels_skipped_button_seats_not_distinct")
		return // known finding KF-C04-2 territory: the statement's premise (three distinct seats) is void
	}
	c.Judged("C06.labels")
	want := map[string][]string{}
	if hu {
		if nd != 2 {
			c.Probe("labels_skipped_hu_buttons_with_more_players")
			return
		}
		want[dealtAt[bb]] = []string{"bb"}
		if id, ok := dealtAt[d]; ok {
			want[id] = []string{"dealer", "sb"}
		}
	} else {
		slots := nd
		if _, ok := dealtAt[d]; !ok {
			slots++
			c.Probe("dead_button_hand")
		}
		if _, ok := dealtAt[sb]; !ok {
			slots++
			c.Probe("dead_small_blind_hand")
		}
		order, ok := stdLabels[slots]
		if !ok {
			c.Probe("labels_skipped_slots_" + fmt.Sprint(slots))
			return
		}
		// clockwise from the BB seat: bb, ug..co, dealer, sb. Every dealt-in player takes the next
		// label; the labels of a dead button / dead small blind are left out. Which labels are left
		// out is not prescribed beyond that, so the published labels must be the standard sequence
		// with exactly (slots - dealt in) of them missing, in order.
		seq := append(append([]string{}, order[2:]...), order[0], order[1])
		var got []string
		for i := 0; i < n; i++ {
			s := (bb + i) % n
			if id, ok := dealtAt[s]; ok {
				for _, p := range st.PlayerStates {
					if p.PlayerID == id {
						if len(p.Positions) != 1 {
							c.Viol("C06", "C06.labels_wrong", map[string]any{"kind": "count"}, "hand %d (D%d/SB%d/BB%d, %d dealt in): %s at seat %d has labels %v, expected exactly one; all: %s", h.k, d, sb, bb, nd, id, s, p.Positions, playerLine(t))
							return
						}
						got = append(got, p.Positions[0])
					}
				}
			}
		}
		li := 0
		for _, g := range got {
			for li < len(seq) && seq[li] != g {
				li++
			}
			if li >= len(seq) {
				c.Viol("C06", "C06.labels_wrong", map[string]any{"kind": "order", "dead_dealer": dealtAt[d] == "", "dead_sb": dealtAt[sb] == ""}, "hand %d (D%d/SB%d/BB%d, %d dealt in, %d slots): labels clockwise from the big blind are %v, not in the standard order %v; all: %s", h.k, d, sb, bb, nd, slots, got, seq, playerLine(t))
				return
			}
			li++
		}
		if len(got) > 0 && got[0] != "bb" {
			c.Viol("C06", "C06.labels_wrong", map[string]any{"kind": "bb"}, "hand %d: the player in the big-blind seat %d is labelled %q; all: %s", h.k, bb, got[0], playerLine(t))
			return
		}
		if id, ok := dealtAt[sb]; ok {
			for _, p := range st.PlayerStates {
				if p.PlayerID == id && !hasStr(p.Positions, "sb") {
					c.Viol("C06", "C06.labels_wrong", map[string]any{"kind": "sb", "dealt_in_player_between_dealer_and_sb": irregularRing(t)}, "hand %d: dealt-in player %s in the small-blind seat %d is labelled %v; all: %s", h.k, id, sb, p.Positions, playerLine(t))
					return
				}
			}
		}
		for _, p := range st.PlayerStates {
			if !p.IsParticipated && len(p.Positions) > 0 {
				c.Viol("C06", "C06.labels_wrong", map[string]any{"kind": "not_dealt_in"}, "hand %d: %s is not dealt in but has labels %v", h.k, p.PlayerID, p.Positions)
				return
			}
		}
		want = nil
	}
	used := map[string]string{}
	for _, p := range st.PlayerStates {
		if want == nil {
			break
		}
		w := want[p.PlayerID]
		got := append([]string{}, p.Positions...)
		sort.Strings(got)
		ws := append([]string{}, w...)
		sort.Strings(ws)
		if fmt.Sprint(got) != fmt.Sprint(ws) {
			c.Viol("C06", "C06.labels_wrong", map[string]any{"headsup": hu, "dead_dealer": dealtAt[d] == "", "dead_sb": dealtAt[sb] == ""},
				"hand %d (D%d/SB%d/BB%d, %d dealt in): %s at seat %d has labels %v, expected %v; all: %s", h.k, d, sb, bb, nd, p.PlayerID, p.Seat, p.Positions, w, playerLine(t))
			return
		}
	}
	for _, p := range st.PlayerStates {
		for _, l := range p.Positions {
			if o, dup := used[l]; dup {
				c.Viol("C06", "C06.label_shared", nil, "hand %d: label %s on both %s and %s", h.k, l, o, p.PlayerID)
				return
			}
			used[l] = p.PlayerID
		}
	}
}

// ---- playing snapshots ---------------------------------------------------------------------------

func (m *tableMon) onHandSnapshot(t *pt.Table, seq int64) {
	c := m.c
	st := t.State
	h := m.hands[st.GameCount]
	if h == nil || st.GameState == nil {
		return
	}
	gs := st.GameState
	// C02: roster stable
	c.Judged("C02.roster_stable")
	if r := rosterOf(t); fmt.Sprint(r) != fmt.Sprint(h.roster) {
		gameStatus := st.Status == pt.TableStateStatus_TableGamePlaying || st.Status == pt.TableStateStatus_TableGameOpened
		c.Viol("C02", "C02.roster_changed", map[string]any{"dealt_in_player_left": h.leftMidHand || m.rosterLossExplained(h, r), "table_status_is_a_hand_status": gameStatus}, "hand %d: player list was %v at open and is %v now (event %s, table status %s)", h.k, h.roster, r, gs.Status.CurrentEvent, st.Status)
		return
	}
	if h.firstGS == nil {
		h.firstGS = t
		h.firstGSSeq = seq
		h.gameID = gs.GameID
		c.Judged("C07.game_id")
		if k0, dup := m.gameIDs[gs.GameID]; dup && k0 != h.k {
			c.Viol("C07", "C07.game_id_reused", nil, "hand %d carries game id %s already used by hand %d", h.k, gs.GameID, k0)
		}
		m.gameIDs[gs.GameID] = h.k
		m.checkFirstState(h, t)
	}
	if !h.gbsChecked && st.Status == pt.TableStateStatus_TableGamePlaying && st.GameBlindState != nil {
		h.gbsChecked = true
		cp := *st.GameBlindState
		h.gbsFirst = &cp
		m.checkGameBlindState(h, t)
	} else if h.gbsChecked {
		m.checkGameBlindStable(h, t)
	}
	// event tracking (C11, C15)
	evKey := gs.Status.CurrentEvent + "/" + gs.Status.Round
	m.trackPhase(h, t, evKey)
	m.checkDeadline(h, t)
}

func (m *tableMon) topupsBetween(id string, fromSeq, toSeq int64) (definite int64, ambiguous []int64) {
	for _, tu := range m.topups {
		if tu.id != id {
			continue
		}
		ret := tu.returnSeq
		if ret == 0 {
			ret = 1 << 60
		}
		switch {
		case ret < fromSeq || tu.invokeSeq > toSeq:
		case tu.invokeSeq > fromSeq && ret < toSeq:
			definite += tu.amt
		default:
			ambiguous = append(ambiguous, tu.amt)
		}
	}
	return
}

func subsetSumHas(base int64, amb []int64, target int64) bool {
	if len(amb) > 10 {
		return true
	}
	for mask := 0; mask < 1<<len(amb); mask++ {
		s := base
		for i, a := range amb {
			if mask&(1<<i) != 0 {
				s += a
			}
		}
		if s == target {
			return true
		}
	}
	return false
}

func (m *tableMon) checkFirstState(h *handRec, t *pt.Table) {
	c := m.c
	gs := t.State.GameState
	if len(gs.Players) != len(h.roster) {
		c.Viol("C02", "C02.engine_player_count", nil, "hand %d: hand engine has %d players, player list has %d", h.k, len(gs.Players), len(h.roster))
		return
	}
	// C02: starting stack = bankroll at open (top-ups that overlap the open are accepted either way)
	c.Judged("C02.start_stack")
	for i, id := range h.roster {
		def, amb := m.topupsBetween(id, h.openSeq-1, m.c.seq+1)
		// anything invoked after the opened snapshot may or may not be included
		amb = append(amb, def)
		if !subsetSumHas(h.bankAtOpen[id], amb, gs.Players[i].Bankroll) {
			c.Viol("C02", "C02.start_stack_wrong", nil, "hand %d: entry %d (%s) starts with %d chips in the hand engine, bankroll at open was %d", h.k, i, id, gs.Players[i].Bankroll, h.bankAtOpen[id])
			return
		}
	}
	// C06: the hand engine receives the same labels
	if t.Meta.Rule == pt.CompetitionRule_Default {
		c.Judged("C06.engine_labels")
		anyDealer := false
		for _, p := range h.open.State.PlayerStates {
			if hasStr(p.Positions, "dealer") && p.IsParticipated {
				anyDealer = true
			}
		}
		for i, id := range h.roster {
			var want []string
			for _, p := range h.open.State.PlayerStates {
				if p.PlayerID == id {
					want = append(want, p.Positions...)
				}
			}
			if i == 0 && !anyDealer {
				want = append(want, "dealer")
			}
			got := append([]string{}, gs.Players[i].Positions...)
			sort.Strings(got)
			sort.Strings(want)
			if fmt.Sprint(got) != fmt.Sprint(want) {
				c.Viol("C06", "C06.engine_labels_differ", map[string]any{"dealt_in_player_between_dealer_and_sb": irregularRing(h.open)}, "hand %d: entry %d (%s) has labels %v on the table and %v in the hand engine", h.k, i, id, want, got)
				return
			}
		}
	}
	// C12: the hand is played at one of the levels that can have been in force when it opened
	m.checkHandBlinds(h, t)
}

// acceptableBlinds: the level set by the last update that had returned before the open procedure
// of h can have begun (= the previous settlement), plus every update that returned later or is
// still in flight (it overlaps the open procedure and may fall on either side).
// acceptableBlinds: the level in force when hand h opened is that of the last update that had
// returned before the hand's open was published (the initial level if none); an update whose call
// overlaps the open - invoked before the hand's first hand state, not returned before the open - may
// or may not be the one the hand is played at.
func (m *tableMon) acceptableBlinds(h *handRec) []blindRec {
	base := m.initialBlind
	var last *blindUpd
	for i := range m.blinds {
		u := m.blinds[i]
		if u.returnSeq > 0 && u.returnSeq < h.openSeq && (last == nil || u.returnSeq > last.returnSeq) {
			last = u
		}
	}
	var out []blindRec
	if last != nil {
		base = last.b
	}
	for i := range m.blinds {
		u := m.blinds[i]
		switch {
		case u == last:
		case u.returnSeq > 0 && u.returnSeq < h.openSeq:
			if last != nil && u.returnSeq > last.invokeSeq {
				out = append(out, u.b) // its call overlapped the last one's: the engine may have applied them in the other order
			}
		case h.firstGSSeq == 0 || u.invokeSeq <= h.firstGSSeq:
			out = append(out, u.b)
		}
	}
	return append([]blindRec{base}, out...)
}

func (m *tableMon) checkHandBlinds(h *handRec, t *pt.Table) {
	c := m.c
	gs := t.State.GameState
	c.Judged("C12.hand_blinds")
	acc := m.acceptableBlinds(h)
	ok := false
	allBreak := true
	for _, b := range acc {
		if b.ante == gs.Meta.Ante && b.dealer == gs.Meta.Blind.Dealer && b.sb == gs.Meta.Blind.SB && b.bb == gs.Meta.Blind.BB {
			ok = true
		}
		if b.level != -1 {
			allBreak = false
		}
	}
	if len(acc) > 1 {
		c.Probe("blind_update_overlaps_open")
	}
	if allBreak {
		c.Viol("C12", "C12.opened_on_break", map[string]any{"published_level_is_break": false}, "hand %d opened although the blind level has been a break since before the previous settlement", h.k)
		return
	}
	if !ok {
		c.Viol("C12", "C12.hand_blinds_wrong", map[string]any{"candidates": len(acc)}, "hand %d is played at ante %d dealer %d sb %d bb %d; level(s) that can have been in force when it opened: %+v", h.k, gs.Meta.Ante, gs.Meta.Blind.Dealer, gs.Meta.Blind.SB, gs.Meta.Blind.BB, acc)
	}
}

func (m *tableMon) checkGameBlindState(h *handRec, t *pt.Table) {
	c := m.c
	gs := t.State.GameState
	g := t.State.GameBlindState
	c.Judged("C12.game_blind_state")
	levelOK := false
	for _, b := range m.acceptableBlinds(h) {
		if b.level == g.Level {
			levelOK = true
		}
	}
	if !levelOK {
		c.Viol("C12", "C12.published_level_not_in_force", nil, "hand %d publishes blind level %d; level(s) that can have been in force when it opened: %+v", h.k, g.Level, m.acceptableBlinds(h))
	}
	if g.Ante != gs.Meta.Ante || g.Dealer != gs.Meta.Blind.Dealer || g.SB != gs.Meta.Blind.SB || g.BB != gs.Meta.Blind.BB {
		// startGame reads the level twice; an update in between may legitimately differ only if it overlapped
		if len(m.acceptableBlinds(h)) == 1 {
			c.Viol("C12", "C12.published_level_differs", nil, "hand %d: published game blind state %+v differs from the amounts charged (ante %d, blinds %+v)", h.k, *g, gs.Meta.Ante, gs.Meta.Blind)
		}
	}
}

// C12: the level published for a hand stays the one it opened with.
func (m *tableMon) checkGameBlindStable(h *handRec, t *pt.Table) {
	g := t.State.GameBlindState
	if h.gbsFirst == nil || g == nil {
		return
	}
	m.c.Judged("C12.published_level_stable")
	if *g != *h.gbsFirst {
		m.c.Viol("C12", "C12.published_level_changed_during_hand", nil, "hand %d: the published game blind state was %+v when the hand started and is %+v now (status %s)", h.k, *h.gbsFirst, *g, t.State.Status)
	}
}

// C11: request phases.
func (m *tableMon) trackPhase(h *handRec, t *pt.Table, evKey string) {
	c := m.c
	gs := t.State.GameState
	if evKey == h.lastEvent {
		return
	}
	now := c.NowMs()
	// close the running phase
	if ph := h.phase; ph != nil && !ph.closed {
		ph.closed = true
		m.collectAnswers(h, ph)
		if h.tainted == "" {
			c.Judged("C11.phase_closed")
			// the engine arms its timer when it handles the request, the monitor sees the request when it is
			// published; injected slowness (slow subscriber, slow backend holding the engine lock) can
			// separate the two, so it is credited to the elapsed time
			elapsed := now - ph.t0 + h.slowMs + m.w.be.SleptMs
			if elapsed < specResponseTimeoutS*1000 {
				var missing []string
				for id := range ph.asked {
					if _, ok := ph.answered[id]; !ok && !ph.maybe[id] {
						missing = append(missing, id)
					}
				}
				sort.Strings(missing)
				if len(missing) > 0 {
					c.Viol("C11", "C11.advanced_before_all_answered", map[string]any{"phase": ph.event}, "hand %d moved on from %s after %dms although %v had not answered (response timeout %ds)", h.k, ph.event, elapsed, missing, specResponseTimeoutS)
				}
			}
			m.checkPhaseLate(h, ph, now)
		}
	}
	h.lastEvent = evKey
	h.phaseFrom = now
	h.eventsSeen++
	h.phase = nil
	ev := gs.Status.CurrentEvent
	if ev == "ReadyRequested" || ev == "AnteRequested" || ev == "BlindsRequested" {
		ph := &phaseRec{event: ev, round: gs.Status.Round, t0: now, asked: map[string]bool{}, answered: map[string]int64{}, maybe: map[string]bool{}, from: h.phaseFrom}
		want := map[string]bool{}
		for i, id := range h.roster {
			if i >= len(gs.Players) {
				break
			}
			p := gs.Players[i]
			switch ev {
			case "ReadyRequested":
				want[id] = true
			case "AnteRequested":
				want[id] = gs.Meta.Ante > 0
			case "BlindsRequested":
				want[id] = (gs.Meta.Blind.BB > 0 && hasStr(p.Positions, "bb")) || (gs.Meta.Blind.SB > 0 && hasStr(p.Positions, "sb")) || (gs.Meta.Blind.Dealer > 0 && hasStr(p.Positions, "dealer"))
			}
			act := "ready"
			if ev != "ReadyRequested" {
				act = "pay"
			}
			if hasStr(p.AllowedActions, act) {
				ph.asked[id] = true
			}
		}
		c.Judged("C11.asked_set")
		act := "ready"
		if ev != "ReadyRequested" {
			act = "pay"
		}
		for id, wnt := range want {
			if wnt && !ph.asked[id] && m.answeredThisInstant(h, id, act, now) {
				// the request was answered (by a caller that knew the hand state, or by an answer meant for
				// the phase before) between the engine's step and its publication: the permission is gone
				// again in the snapshot that announces the request
				c.Probe("request_answered_before_it_was_published")
				continue
			}
			if wnt != ph.asked[id] && h.tainted == "" {
				c.Viol("C11", "C11.asked_set_wrong", map[string]any{"phase": ev}, "hand %d %s: %s should%s be asked but the published hand state says asked=%v", h.k, ev, id, map[bool]string{true: "", false: " not"}[wnt], ph.asked[id])
				break
			}
		}
		h.phase = ph
		m.extraMs = 0
	}
	if ev == "GameClosed" && t.State.Status == pt.TableStateStatus_TableGamePlaying {
		// published before settlement; nothing to judge here
		_ = ev
	}
}

func (m *tableMon) answeredThisInstant(h *handRec, id, act string, now int64) bool {
	for _, a := range h.actionsP {
		if a.id == id && a.action == act && (a.pending || (a.ok && a.atMs == now)) {
			return true
		}
	}
	for _, a := range h.actions {
		if a.id == id && a.action == act && a.ok && a.atMs == now {
			return true
		}
	}
	return false
}

func (m *tableMon) checkPhaseLate(h *handRec, ph *phaseRec, now int64) {
	c := m.c
	due := ph.t0 + specResponseTimeoutS*1000
	all := true
	last := ph.t0
	for id := range ph.asked {
		ta, ok := ph.answered[id]
		if !ok {
			all = false
			break
		}
		if ta > last {
			last = ta
		}
	}
	if all {
		due = last
	}
	if len(ph.asked) == 0 {
		return
	}
	if now > due+specSlackMs+ph.allowMs+m.w.be.SleptMs {
		c.Viol("C11", "C11.did_not_advance", map[string]any{"phase": ph.event, "all_answered": all}, "hand %d %s: everyone asked had answered (or the %ds response timeout had passed) at %dms but the hand only moved on at %dms", h.k, ph.event, specResponseTimeoutS, due, now)
	}
}

// C15: published action deadline.
func (m *tableMon) checkDeadline(h *handRec, t *pt.Table) {
	c := m.c
	st := t.State
	gs := st.GameState
	ev := gs.Status.CurrentEvent
	if st.Status != pt.TableStateStatus_TableGamePlaying {
		return
	}
	if ev == "RoundClosed" {
		m.closeTurn(h)
		c.Judged("C15.cleared_on_round_close")
		if st.CurrentActionEndAt != 0 && !m.extendInFlight {
			c.Viol("C15", "C15.not_cleared", map[string]any{"when": "round_closed"}, "hand %d: action deadline is %d on the RoundClosed snapshot", h.k, st.CurrentActionEndAt)
		}
		return
	}
	if ev != "RoundStarted" {
		return
	}
	cp := gs.Status.CurrentPlayer
	if cp < 0 || cp >= len(gs.Players) {
		return
	}
	p := gs.Players[cp]
	wager := len(p.AllowedActions) > 0
	for _, a := range p.AllowedActions {
		if !isWager(a) {
			wager = false
		}
	}
	if !wager || p.Acted {
		return
	}
	tk := m.turnKey(gs) + fmt.Sprint(gs.UpdatedAt, len(p.AllowedActions))
	if tk != m.lastTurnKey {
		m.closeTurn(h)
		m.lastTurnKey = tk
		m.turnAt = t.UpdateAt
		m.turnStale = m.lastDeadlineSeen
		m.turnOK = false
		m.turnOwn = false
		m.turnOpen = true
		m.turnDesc = fmt.Sprintf("hand %d round %s player %d (allowed %v, asked at %d)", h.k, gs.Status.Round, cp, p.AllowedActions, t.UpdateAt)
	}
	// A snapshot published by a concurrent, unrelated event may show the request before the
	// deadline has been written (0); what must never appear is a wrong deadline, and the right
	// one must have been published before the turn is over.
	// "The time of the request" is the time of the engine's own publication of the turn (the one its
	// GameUpdated notification follows). Another caller's publication may show the new hand state
	// earlier - while the engine's updater still waits for the engine lock under which it writes the
	// deadline - with the previous turn's deadline (possibly extended meanwhile) or none.
	action := int64(t.Meta.ActionTime)
	c.Judged("C15.deadline_on_request")
	ext := m.extensions[m.turnKey(gs)]
	ext.total += m.floatingExtensions(m.turnKey(gs))
	end := st.CurrentActionEndAt
	if m.snapByTask == nil {
		m.snapByTask = map[string]turnSnap{}
	}
	m.snapByTask[simrt.CurName()] = turnSnap{tk: tk, at: t.UpdateAt, end: end, fresh: true, action: action, ext: ext.total}
	switch {
	case end == 0:
		// not (or no longer: the round is being closed) written; a turn that ends without ever having
		// shown its deadline is reported by closeTurn
		c.Probe("request_published_before_deadline_written")
	case m.turnOwn:
		// after the engine's own publication: its time + action time, plus extensions
		want := m.turnAt + action
		if end >= want && end <= want+ext.total {
			m.turnOK = true
		} else {
			c.Viol("C15", "C15.deadline_wrong", nil, "%s: action time %ds, the engine published the request at %d; the published deadline is %d (extensions requested or landing in this turn: %ds)", m.turnDesc, t.Meta.ActionTime, m.turnAt, end, ext.total)
		}
	case m.turnStale != 0 && end >= m.turnStale && end <= m.turnStale+ext.total:
		// the deadline of the previous turn (extended meanwhile or not), re-published before the engine wrote the new one
		c.Probe("request_published_before_deadline_written")
	case end >= m.turnAt+action && end <= t.UpdateAt+action+ext.total:
		// written at some moment between the first sight of the request and now
		m.turnOK = true
	default:
		c.Viol("C15", "C15.deadline_wrong", nil, "%s: action time %ds, published deadline is %d at %d (deadline before the turn %d, extensions requested or landing in this turn %ds)", m.turnDesc, t.Meta.ActionTime, end, t.UpdateAt, m.turnStale, ext.total)
	}
}

type turnSnap struct {
	tk      string
	at, end int64
	fresh   bool
	action  int64
	ext     int64
}

// engineOwnPublication: a GameUpdated notification follows the engine's own publication of a hand
// state. If that publication was the latest snapshot and showed the current turn, it is the request.
func (m *tableMon) engineOwnPublication() {
	// the notification is sent by the task that has just published: its latest snapshot is the one meant
	ls, ok := m.snapByTask[simrt.CurName()]
	delete(m.snapByTask, simrt.CurName())
	if !ok || ls.tk != m.lastTurnKey || !m.turnOpen || m.turnOwn {
		return
	}
	m.turnOwn = true
	m.turnAt = ls.at
	want := ls.at + ls.action
	if ls.end >= want && ls.end <= want+ls.ext {
		m.turnOK = true
		return
	}
	if h := m.cur; h != nil && h.tainted == "" {
		m.c.Viol("C15", "C15.deadline_wrong", nil, "%s: action time %ds: the engine's own publication of the request at %d carries the deadline %d (extensions requested or landing in this turn: %ds)", m.turnDesc, ls.action, ls.at, ls.end, ls.ext)
	}
}

type extRec struct{ total int64 }

// extCall: one deadline extension call. The call waits for the engine lock, so a call invoked in one
// turn may take effect in the next: such a call "floats" and may or may not be part of the next turn's
// deadline.
type extCall struct {
	key     string
	d       int64
	pending bool
	retKey  string
}

func (m *tableMon) extensionInvoke(turnKey string, d int64) *extCall {
	m.lastExtAtMs, m.lastExtD = m.c.NowMs(), d
	if m.extensions == nil {
		m.extensions = map[string]extRec{}
	}
	e := m.extensions[turnKey]
	e.total += d
	m.extensions[turnKey] = e
	ec := &extCall{key: turnKey, d: d, pending: true}
	m.extCalls = append(m.extCalls, ec)
	return ec
}

func (m *tableMon) extensionReturn(ec *extCall) {
	ec.pending = false
	if tb := m.w.eng.GetTable(); tb != nil && tb.State.GameState != nil {
		ec.retKey = m.turnKey(tb.State.GameState)
	}
}

// floatingExtensions: seconds of extension calls invoked under another turn that were still in flight
// when this turn began (or returned during it).
func (m *tableMon) floatingExtensions(curKey string) int64 {
	var sum int64
	for _, ec := range m.extCalls {
		if ec.key != curKey && (ec.pending || ec.retKey == curKey) {
			sum += ec.d
		}
	}
	return sum
}

func (m *tableMon) closeTurn(h *handRec) {
	if m.turnOpen && !m.turnOK && h != nil && h.tainted == "" {
		m.c.Viol("C15", "C15.deadline_never_published", nil, "%s: the turn ended without the action deadline having been published", m.turnDesc)
	}
	m.turnOpen = false
}

func (m *tableMon) turnKey(gs *pokerface.GameState) string {
	return fmt.Sprintf("%s|%s|%d", gs.GameID, gs.Status.Round, gs.Status.CurrentPlayer)
}

// ---- settlement ---------------------------------------------------------------------------------

func (m *tableMon) onSettled(t *pt.Table, seq int64) {
	c := m.c
	st := t.State
	h := m.hands[st.GameCount]
	if h == nil || h.settledFinal {
		return
	}
	first := h.settled == nil
	h.settled = t
	if first {
		h.settledMs = c.NowMs()
		h.settledSeq = seq
		m.handsSettled++
		m.lastSettledMs = c.NowMs()
		m.waitingNext = true
		m.extraMs = 0
		if h.phase != nil {
			h.phase.closed = true
		}
		m.checkGameBlindStable(h, t)
	}
	m.obligedOpen, m.obligedPause = m.continueConditions(t)
	// settleGame runs without the engine lock: a locked call (top-up, departure) that publishes the
	// table while it is half way shows status "settled" with the results not applied yet. The verdict
	// is therefore taken on the last publication of the settled hand: a failing one is held back and
	// re-judged on the next, and reported when the table moves on.
	vs := c.Capture(first, func() { m.judgeSettlement(h, t, seq) })
	if !first {
		c.Probe("settlement_rejudged_on_later_publication")
	}
	// The verdict that counts is the one on the engine's own settlement publication (the one its
	// GameSettled notification follows, sent by the same task); until that is seen - or the table moves
	// on without it - the latest evaluation is held back.
	if vs == nil {
		vs = []CapturedViol{}
	}
	h.pendingSettle = vs
	if h.settleEvalByTask == nil {
		h.settleEvalByTask = map[string][]CapturedViol{}
	}
	h.settleEvalByTask[simrt.CurName()] = vs
	m.pendingSettleHand = h
}

// engineOwnSettlement: the GameSettled notification follows the engine's own publication of the settled hand.
func (m *tableMon) engineOwnSettlement() {
	h := m.pendingSettleHand
	if h == nil || h.settledFinal {
		return
	}
	vs, ok := h.settleEvalByTask[simrt.CurName()]
	if !ok {
		return
	}
	h.pendingSettle = vs
	m.flushSettlement()
}

// flushSettlement reports the held-back verdict of a settled hand once the table has moved on.
func (m *tableMon) flushSettlement() {
	h := m.pendingSettleHand
	if h == nil {
		return
	}
	m.pendingSettleHand = nil
	if !h.settledFinal {
		h.settledFinal = true
		m.c.Emit(h.pendingSettle)
		h.pendingSettle = nil
	}
}

// checkResultCredit (C02): entry i's result is credited to the player entry i denoted at open and to
// nobody else. A player whose bankroll moved, over the hand, not by the own result (nothing for a
// bystander) but exactly by the result of another entry has been credited with that entry's result
// (own top-ups accounted for; in-flight ones in every combination).
func (m *tableMon) checkResultCredit(h *handRec, t *pt.Table, seq int64) {
	c := m.c
	gs := t.State.GameState
	changed := map[string]int64{}
	for _, r := range gs.Result.Players {
		if r.Idx < 0 || r.Idx >= len(h.roster) {
			return
		}
		changed[h.roster[r.Idx]] += r.Changed
	}
	c.Judged("C02.result_credit")
	for _, p := range t.State.PlayerStates {
		b0, known := h.bankAtOpen[p.PlayerID]
		if !known {
			continue
		}
		def, amb := m.topupsBetween(p.PlayerID, h.openSeq, seq)
		own := changed[p.PlayerID]
		if subsetSumHas(b0+def+own, amb, p.Bankroll) {
			continue
		}
		for j, other := range h.roster {
			if other == p.PlayerID || changed[other] == own {
				continue
			}
			if subsetSumHas(b0+def+changed[other], amb, p.Bankroll) {
				c.Viol("C02", "C02.result_credited_to_wrong_player", map[string]any{"receiver_dealt_in": indexOf(h.roster, p.PlayerID) >= 0}, "hand %d: %s (bankroll %d at open, own result %+d, own top-ups %d(+%v)) holds %d after settlement: exactly the result %+d of entry %d (%s) has been credited to %s", h.k, p.PlayerID, b0, own, def, amb, p.Bankroll, changed[other], j, other, p.PlayerID)
				return
			}
		}
	}
}

func (m *tableMon) judgeSettlement(h *handRec, t *pt.Table, seq int64) {
	c := m.c
	st := t.State
	gs := st.GameState
	if gs == nil || gs.Result == nil {
		c.Viol("C11", "C11.settled_without_result", nil, "hand %d settled without a result", h.k)
		return
	}
	if fmt.Sprint(rosterOf(t)) != fmt.Sprint(h.roster) {
		gameStatus := true
		c.Viol("C02", "C02.roster_changed", map[string]any{"dealt_in_player_left": h.leftMidHand || m.rosterLossExplained(h, rosterOf(t)), "table_status_is_a_hand_status": gameStatus}, "hand %d: player list was %v at open and is %v at settlement", h.k, h.roster, rosterOf(t))
		// C01 is still judged below, keyed by the roster fixed at open
	}
	if h.tainted != "" {
		m.ledgerOff = "hand " + fmt.Sprint(h.k) + ": " + h.tainted
		return
	}
	c.Judged("C11.result_entries")
	if len(gs.Result.Players) != len(h.roster) {
		c.Viol("C11", "C11.result_entries", nil, "hand %d settled with %d result entries for %d participants", h.k, len(gs.Result.Players), len(h.roster))
		return
	}
	m.checkResultCredit(h, t, seq)
	// C01(b): per hand accounting keyed by the roster fixed at open
	c.Judged("C01.hand_delta")
	var sum int64
	bank := map[string]int64{}
	for _, p := range st.PlayerStates {
		bank[p.PlayerID] = p.Bankroll
	}
	seenIdx := map[int]bool{}
	part := map[string]bool{}
	for _, r := range gs.Result.Players {
		if r.Idx < 0 || r.Idx >= len(h.roster) || seenIdx[r.Idx] {
			c.Viol("C01", "C01.result_index", nil, "hand %d: result entry index %d invalid or repeated", h.k, r.Idx)
			return
		}
		seenIdx[r.Idx] = true
		id := h.roster[r.Idx]
		part[id] = true
		sum += r.Changed
		def, amb := m.topupsBetween(id, h.openSeq, seq)
		start := gs.Players[r.Idx].Bankroll // what the hand engine was given
		_ = start
		if !subsetSumHas(h.bankAtOpen[id]+r.Changed+def, amb, bank[id]) {
			hasTop := def != 0 || len(amb) > 0
			c.Viol("C01", "C01.hand_delta", map[string]any{"topup_during_hand": hasTop, "missing_equals_topups": hasTop && h.bankAtOpen[id]+r.Changed == bank[id]},
				"hand %d: %s had %d at open, result %+d, top-ups during the hand %d(+%v), but the bankroll after settlement is %d", h.k, id, h.bankAtOpen[id], r.Changed, def, amb, bank[id])
			if !hasTop && r.Changed != 0 && bank[id] == h.bankAtOpen[id] {
				// C02: entry i's result is credited to the player entry i denoted at open, and to nobody else
				c.Judged("C02.result_credit")
				c.Viol("C02", "C02.result_not_credited_to_entry_player", nil, "hand %d: entry %d was %s at open; its result %+d did not reach %s's bankroll (%d before and after)", h.k, r.Idx, id, r.Changed, id, bank[id])
			}
			return
		}
		if r.Final != gs.Players[r.Idx].Bankroll+r.Changed {
			c.Viol("C01", "C01.final_vs_changed", nil, "hand %d: entry %d final %d != starting stack %d + changed %d", h.k, r.Idx, r.Final, gs.Players[r.Idx].Bankroll, r.Changed)
			return
		}
	}
	if sum != 0 {
		c.Viol("C01", "C01.hand_not_zero_sum", nil, "hand %d: results sum to %d", h.k, sum)
		return
	}
	for id, b0 := range h.bankAtOpen {
		if part[id] {
			continue
		}
		b1, still := bank[id]
		if !still || m.leavers[id] {
			continue
		}
		def, amb := m.topupsBetween(id, h.openSeq, seq)
		if !subsetSumHas(b0+def, amb, b1) {
			c.Viol("C02", "C02.result_credited_to_bystander", nil, "hand %d: %s was not dealt in, yet the bankroll moved from %d to %d over the hand (own top-ups %d(+%v)): a result entry was credited to the wrong player", h.k, id, b0, b1, def, amb)
			c.Viol("C01", "C01.bystander_changed", nil, "hand %d: %s was not dealt in; bankroll %d at open, %d after settlement, own top-ups %d(+%v)", h.k, id, b0, b1, def, amb)
			return
		}
	}
	if len(gs.Result.Players) > 2 {
		c.Probe("multiway_settlement")
	}
	busts := 0
	for _, r := range gs.Result.Players {
		if r.Final == 0 {
			busts++
		}
	}
	if busts > 0 {
		c.Probe("bust")
	}
	if len(gs.Status.Pots) > 1 {
		c.Probe("side_pots")
	}
	// C06: next-BB order
	if t.Meta.Rule == pt.CompetitionRule_Default {
		c.Judged("C06.next_bb_order")
		n := t.Meta.TableMaxSeatCount
		var want []string
		for i := 1; i <= n; i++ {
			s := (st.CurrentBBSeat + i) % n
			for _, p := range st.PlayerStates {
				if p.Seat == s && p.Bankroll > 0 {
					want = append(want, p.PlayerID)
				}
			}
		}
		if fmt.Sprint(want) != fmt.Sprint(st.NextBBOrderPlayerIDs) {
			c.Viol("C06", "C06.next_bb_order", nil, "hand %d settled (BB seat %d): next-BB order is %v, expected %v; players:%s", h.k, st.CurrentBBSeat, st.NextBBOrderPlayerIDs, want, playerLine(t))
		}
	}
	m.checkStats(h, t)
}

// backendWager: the backend applied a wager step of the player at game index idx to the current hand.
func (m *tableMon) backendWager(idx int, kind string) {
	h := m.cur
	if h == nil || h.settled != nil {
		return
	}
	if h.beWagers == nil {
		h.beWagers = map[int]*[4]int{}
	}
	bw := h.beWagers[idx]
	if bw == nil {
		bw = &[4]int{}
		h.beWagers[idx] = bw
	}
	bw[0]++
	switch kind {
	case "Call":
		bw[1]++
	case "Check":
		bw[2]++
	case "Fold":
		bw[3]++
	}
}

// C14: statistics at settlement.
func (m *tableMon) checkStats(h *handRec, t *pt.Table) {
	c := m.c
	st := t.State
	// The clients' calls interleaved with the engine (their returns lag it): what was accepted is then
	// taken from the backend seam, which saw every wager step that was applied to this hand.
	viaBackend := h.recordUnreliable
	if viaBackend {
		if len(st.GamePlayerIndexes) != len(h.roster) || h.leftMidHand {
			c.Inconc("c14_record_unreliable")
			return
		}
		c.Judged("C14.settlement_via_backend")
	} else {
		c.Judged("C14.settlement")
	}
	threeB := 0
	for _, id := range h.roster {
		var ps *pt.TablePlayerState
		for _, p := range st.PlayerStates {
			if p.PlayerID == id {
				ps = p
			}
		}
		if ps == nil {
			continue
		}
		g := ps.GameStatistics
		acts, calls, checks, folds := 0, 0, 0, 0
		if viaBackend {
			if bw := h.beWagers[indexOf(h.roster, id)]; bw != nil {
				acts, calls, checks, folds = bw[0], bw[1], bw[2], bw[3]
			}
		}
		for _, a := range h.actions {
			if viaBackend || a.id != id || !a.ok || !isWager(a.action) {
				continue
			}
			acts++
			switch a.action {
			case "call":
				calls++
			case "check":
				checks++
			case "fold":
				folds++
			}
		}
		if g.ActionTimes != acts || g.CallTimes != calls || g.CheckTimes != checks {
			c.Viol("C14", "C14.counters", nil, "hand %d: %s had %d wager actions (%d calls, %d checks) accepted, statistics say actions=%d calls=%d checks=%d", h.k, id, acts, calls, checks, g.ActionTimes, g.CallTimes, g.CheckTimes)
			return
		}
		if g.RaiseTimes > g.ActionTimes {
			c.Viol("C14", "C14.raises_exceed_actions", nil, "hand %d: %s raises=%d > actions=%d", h.k, id, g.RaiseTimes, g.ActionTimes)
			return
		}
		if g.IsFold != (folds > 0) || (g.FoldRound != "") != (folds > 0) {
			c.Viol("C14", "C14.fold_flag", nil, "hand %d: %s folded=%v but statistics say is_fold=%v fold_round=%q", h.k, id, folds > 0, g.IsFold, g.FoldRound)
			return
		}
		pairs := []struct {
			name      string
			did, chnc bool
		}{{"vpip", g.IsVPIP, g.IsVPIPChance}, {"pfr", g.IsPFR, g.IsPFRChance}, {"ats", g.IsATS, g.IsATSChance}, {"3b", g.Is3B, g.Is3BChance},
			{"ft3b", g.IsFt3B, g.IsFt3BChance}, {"check_raise", g.IsCheckRaise, g.IsCheckRaiseChance}, {"c_bet", g.IsCBet, g.IsCBetChance},
			{"ftcb", g.IsFtCB, g.IsFtCBChance}, {"showdown_win", g.IsShowdownWinning, g.ShowdownWinningChance}}
		for _, p := range pairs {
			if p.did && !p.chnc {
				c.Viol("C14", "C14.did_without_chance", map[string]any{"flag": p.name}, "hand %d: %s has the %s flag without the matching chance flag: %+v", h.k, id, p.name, g)
				return
			}
		}
		if g.Is3B {
			threeB++
		}
	}
	if threeB > 1 {
		c.Viol("C14", "C14.several_three_bet", nil, "hand %d: %d players hold the 3-bet flag", h.k, threeB)
	}
}

// ---- pause (C08) -----------------------------------------------------------------------------------

func (m *tableMon) onPausing(t *pt.Table) {
	c := m.c
	if !m.waitingNext || m.c08off != "" {
		return
	}
	m.waitingNext = false
	st := t.State
	alive := 0
	for _, p := range st.PlayerStates {
		if p.Bankroll > 0 {
			alive++
		}
	}
	c.Judged("C08.pause_condition")
	if !(st.BlindState.Level == -1 || alive < t.Meta.TableMinPlayerCount) {
		// the blind level may have been changed back while the pause was being published; a top-up
		// invoked at the very instant of the decision may fall on either side of it
		sameInstantTopup := false
		for _, tu := range m.topups {
			if tu.atMs == c.NowMs() {
				sameInstantTopup = true
			}
		}
		if len(m.blinds) == 0 && !sameInstantTopup {
			c.Viol("C08", "C08.paused_without_cause", nil, "table paused after hand %d although the level is %d and %d players have chips (minimum %d)", st.GameCount, st.BlindState.Level, alive, t.Meta.TableMinPlayerCount)
		}
	} else {
		c.Probe("paused_for_cause")
	}
}

// collectAnswers: accepted ready / pay calls since the previous event boundary belong to this phase
// (a caller that knows the hand state may answer before the request snapshot is published).
func (m *tableMon) collectAnswers(h *handRec, ph *phaseRec) {
	want := "ready"
	if ph.event != "ReadyRequested" {
		want = "pay"
	}
	key := ph.event + "/" + ph.round
	for _, a := range h.actionsP {
		if a.action == want && (a.pending || (a.ok && a.atMs >= ph.from)) {
			ph.maybe[a.id] = true
		}
	}
	for _, a := range h.actions {
		if !a.ok || a.action != want {
			continue
		}
		if a.evKey == key {
			if _, dup := ph.answered[a.id]; !dup {
				ph.answered[a.id] = a.atMs
			}
		} else if a.evKey == "?" && a.atMs >= ph.from {
			ph.maybe[a.id] = true
		}
	}
}

// continueConditions evaluates the premises of C08 on a table value.
func (m *tableMon) continueConditions(t *pt.Table) (open bool, pause bool) {
	live, alive := 0, 0
	for _, p := range t.State.PlayerStates {
		if p.Bankroll > 0 {
			alive++
			if p.IsIn {
				live++
			}
		}
	}
	pause = t.State.BlindState.Level == -1 || alive < t.Meta.TableMinPlayerCount
	open = !pause && live >= 2 && t.State.BlindState.Level != 0
	return
}

// irregularRing: a dealt-in player sits strictly between the dealer seat and the small-blind seat
// (possible after dead-button rotations when a player becomes live there).
func irregularRing(t *pt.Table) bool {
	st := t.State
	n := t.Meta.TableMaxSeatCount
	if st.CurrentDealerSeat == st.CurrentSBSeat {
		return false
	}
	for _, p := range st.PlayerStates {
		if p.IsParticipated && cwBetween(st.CurrentDealerSeat, st.CurrentSBSeat, p.Seat, n) {
			return true
		}
	}
	return false
}

// slowness: injected delay (slow subscriber / slow backend) that the time bounds must allow for.
func (m *tableMon) slowness(ms int64) {
	m.extraMs += ms
	if m.cur != nil {
		m.cur.slowMs += ms
	}
	if m.cur != nil && m.cur.phase != nil && !m.cur.phase.closed {
		m.cur.phase.allowMs += ms
	}
}

// externalSetup: a set-up call from outside restarts the gate (it supersedes the pending one), so the
// bounded-liveness clock of C08 ("without any further external call") restarts as well.
func (m *tableMon) externalSetup() {
	if m.waitingNext {
		m.lastSettledMs = m.c.NowMs() - int64(m.w.cfg.interval)*1000
	}
}
