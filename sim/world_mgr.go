package sim

import (
	"fmt"
	"sort"
	"time"

	pt "github.com/weedbox/pokertable"
	"verif.local/simrt"
)

// W-MGR: a manager with 1..5 tables (property C17). The same seed is executed twice (see
// runner.go): once every operation goes through Manager.X(tableID, ...), once directly to the
// engine obtained from GetTableEngine. Results and event logs must be identical. In the manager
// run every operation is an atomic section and the JSON of all other tables is compared
// before/after (isolation); unknown / closed / released ids must give the not-found error.

type mgrWorld struct {
	c      *Ctx
	mgr    pt.Manager
	ids    []string
	gone   map[string]bool
	viaMgr bool
	engs   map[string]pt.TableEngine // the engines as created (the engine twin addresses these directly)
	never  []string                  // ids that never named a table (including ids of refused creations)
}

func init() { RegisterWorld("mgr", func() World { return &mgrWorld{} }) }

func (w *mgrWorld) Name() string { return "mgr" }

func (w *mgrWorld) tablesJSON(except string) map[string]string {
	out := map[string]string{}
	for _, id := range w.ids {
		if id == except || w.gone[id] {
			continue
		}
		if e := w.engs[id]; e != nil {
			j, _ := e.GetTable().GetJSON()
			out[id] = j
		}
	}
	return out
}

type mgrOp struct {
	name string
	mgr  func(id string) (string, error)
	eng  func(e pt.TableEngine) (string, error)
	ends bool // close / release: the table is gone afterwards
}

func (w *mgrWorld) Run(c *Ctx) {
	w.c = c
	w.viaMgr = c.Job.Override["mgr_mode"] != "engine"
	c.Cfg["mgr_mode"] = map[bool]string{true: "manager", false: "engine"}[w.viaMgr]
	w.gone = map[string]bool{}
	w.engs = map[string]pt.TableEngine{}
	w.never = []string{"never-created"}
	w.mgr = pt.NewManager()
	nT := 1 + c.CfgInt("tables", 0, 4)
	nOps := 10 + c.CfgInt("mgr_ops", 0, 50)
	st := c.St.Get("admin")
	for i := 0; i < nT; i++ {
		id := fmt.Sprintf("T%d", i)
		cb := pt.NewTableEngineCallbacks()
		cb.OnTableUpdated = func(t *pt.Table) {
			ev := ""
			if t.State.GameState != nil {
				ev = t.State.GameState.Status.CurrentEvent + "/" + t.State.GameState.Status.Round
			}
			c.Logf("UPD %s #%d %s gc=%d %s |%s", t.ID, t.UpdateSerial, t.State.Status, t.State.GameCount, ev, playerLine(t))
		}
		cb.OnTableErrorUpdated = func(t *pt.Table, err error) { c.Logf("ERR %s %v", t.ID, err) }
		cb.OnTableStateUpdated = func(ev string, t *pt.Table) { c.Logf("STATE %s %s %s", t.ID, ev, t.State.Status) }
		cb.OnGamePlayerActionUpdated = func(a pt.TablePlayerGameAction) {
			c.Logf("ACTION %s %s %s %d", a.TableID, a.PlayerID, a.Action, a.Chips)
		}
		cb.OnReadyOpenFirstTableGame = func(cid, tid string, gc int, ps []*pt.TablePlayerState) {
			parts := map[string]int{}
			for i, p := range ps {
				parts[p.PlayerID] = i
			}
			if w.viaMgr {
				w.mgr.SetUpTableGame(tid, gc, parts)
			} else if e := w.engs[tid]; e != nil && !w.gone[tid] {
				// (a closed / released table is no longer addressable through the manager)
				e.SetUpTableGame(gc, parts)
			}
		}
		opts := pt.NewTableEngineOptions()
		opts.GameContinueInterval = 1
		mode := []string{pt.CompetitionMode_CT, pt.CompetitionMode_MTT}[st.Draw(2)]
		_, err := w.mgr.CreateTable(opts, cb, pt.TableSetting{TableID: id,
			Meta:  pt.TableMeta{CompetitionID: "c1", Rule: pt.CompetitionRule_Default, Mode: mode, MaxDuration: 36000, TableMaxSeatCount: 2 + st.Draw(8), TableMinPlayerCount: 2, MinChipUnit: 1, ActionTime: 5},
			Blind: pt.TableBlindState{Level: 1, Ante: 0, Dealer: 0, SB: 10, BB: 20}})
		c.Logf("CREATE %s -> %v", id, err)
		w.ids = append(w.ids, id)
		if e, gerr := w.mgr.GetTableEngine(id); gerr == nil {
			w.engs[id] = e
		}
	}
	players := []string{"a", "b", "c", "d", "e", "f"}
	for k := 0; k < nOps && !c.Stopped(); k++ {
		simrt.Sleep(0, time.Duration([]int{1, 50, 400, 1500, 4000}[st.Draw(5)])*time.Millisecond)
		var id string
		switch st.Pick(85, 15) {
		case 0:
			id = w.ids[st.Draw(len(w.ids))]
		default:
			id = w.never[st.Draw(len(w.never))]
		}
		if st.Chance(1, 12) {
			// A creation that is refused (more players than seats; two players on one seat): the id it named
			// stays unknown, and a live table of that id is not touched.
			cid := fmt.Sprintf("F%d", len(w.never))
			live := st.Chance(1, 2)
			if live {
				cid = w.ids[st.Draw(len(w.ids))]
			}
			bad := pt.TableSetting{TableID: cid,
				Meta:  pt.TableMeta{CompetitionID: "c1", Rule: pt.CompetitionRule_Default, Mode: pt.CompetitionMode_CT, MaxDuration: 36000, TableMaxSeatCount: 2, TableMinPlayerCount: 2, MinChipUnit: 1, ActionTime: 5},
				Blind: pt.TableBlindState{Level: 1, Ante: 0, Dealer: 0, SB: 10, BB: 20}}
			if st.Chance(1, 2) {
				bad.JoinPlayers = []pt.JoinPlayer{{PlayerID: "x", RedeemChips: 100, Seat: 0}, {PlayerID: "y", RedeemChips: 100, Seat: 1}, {PlayerID: "z", RedeemChips: 100, Seat: -1}}
			} else {
				bad.JoinPlayers = []pt.JoinPlayer{{PlayerID: "x", RedeemChips: 100, Seat: 1}, {PlayerID: "y", RedeemChips: 100, Seat: 1}}
			}
			var cerr error
			var before, after map[string]string
			simrt.Atomic(func() {
				before = w.tablesJSON("")
				if w.viaMgr {
					_, cerr = w.mgr.CreateTable(pt.NewTableEngineOptions(), pt.NewTableEngineCallbacks(), bad)
				} else {
					_, cerr = pt.NewTableEngine(pt.NewTableEngineOptions(), pt.WithGameBackend(pt.NewNativeGameBackend())).CreateTable(bad)
				}
				after = w.tablesJSON("")
			})
			c.Logf("CREATE-REFUSED %s (live=%v) -> %v", cid, live, cerr != nil)
			c.Judged("C17.refused_creation")
			if cerr == nil {
				c.Res.Infra = append(c.Res.Infra, "harness: the invalid table setting was accepted")
			}
			for _, tid := range w.ids {
				if b, ok := before[tid]; ok && after[tid] != b {
					c.Viol("C17", "C17.other_table_affected", map[string]any{"op": "CreateTable(refused)"}, "a refused Manager.CreateTable(%s) changed table %s: %s", cid, tid, firstDiff(b, after[tid]))
				}
			}
			if !live {
				w.never = append(w.never, cid)
			}
		}
		pid := players[st.Draw(len(players))]
		chips := int64(50 + st.Draw(500))
		seat := -1 + st.Draw(3)
		e2s := func(err error) (string, error) { return "", err }
		ops := []mgrOp{
			{"PlayerReserve", func(id string) (string, error) {
				return e2s(w.mgr.PlayerReserve(id, pt.JoinPlayer{PlayerID: pid, RedeemChips: chips, Seat: seat}))
			}, func(e pt.TableEngine) (string, error) {
				return e2s(e.PlayerReserve(pt.JoinPlayer{PlayerID: pid, RedeemChips: chips, Seat: seat}))
			}, false},
			{"PlayerJoin", func(id string) (string, error) { return e2s(w.mgr.PlayerJoin(id, pid)) }, func(e pt.TableEngine) (string, error) { return e2s(e.PlayerJoin(pid)) }, false},
			{"PlayerSettlementFinish", func(id string) (string, error) { return e2s(w.mgr.PlayerSettlementFinish(id, pid)) }, func(e pt.TableEngine) (string, error) { return e2s(e.PlayerSettlementFinish(pid)) }, false},
			{"PlayerRedeemChips", func(id string) (string, error) {
				return e2s(w.mgr.PlayerRedeemChips(id, pt.JoinPlayer{PlayerID: pid, RedeemChips: chips}))
			}, func(e pt.TableEngine) (string, error) {
				return e2s(e.PlayerRedeemChips(pt.JoinPlayer{PlayerID: pid, RedeemChips: chips}))
			}, false},
			{"PlayersLeave", func(id string) (string, error) { return e2s(w.mgr.PlayersLeave(id, []string{pid})) }, func(e pt.TableEngine) (string, error) { return e2s(e.PlayersLeave([]string{pid})) }, false},
			{"UpdateTablePlayers", func(id string) (string, error) {
				m, err := w.mgr.UpdateTablePlayers(id, []pt.JoinPlayer{{PlayerID: pid, RedeemChips: chips, Seat: -1}}, nil)
				return fmt.Sprint(sortedMap(m)), err
			}, func(e pt.TableEngine) (string, error) {
				m, err := e.UpdateTablePlayers([]pt.JoinPlayer{{PlayerID: pid, RedeemChips: chips, Seat: -1}}, nil)
				return fmt.Sprint(sortedMap(m)), err
			}, false},
			{"StartTableGame", func(id string) (string, error) { return e2s(w.mgr.StartTableGame(id)) }, func(e pt.TableEngine) (string, error) { return e2s(e.StartTableGame()) }, false},
			{"UpdateBlind", func(id string) (string, error) { return e2s(w.mgr.UpdateBlind(id, 2, 0, 0, 20, 40)) }, func(e pt.TableEngine) (string, error) {
				e.UpdateBlind(2, 0, 0, 20, 40)
				return "", nil
			}, false},
			{"PauseTable", func(id string) (string, error) { return e2s(w.mgr.PauseTable(id)) }, func(e pt.TableEngine) (string, error) { return e2s(e.PauseTable()) }, false},
			{"PlayerExtendActionDeadline", func(id string) (string, error) {
				v, err := w.mgr.PlayerExtendActionDeadline(id, pid, 3)
				return fmt.Sprint(v), err
			}, func(e pt.TableEngine) (string, error) {
				v, err := e.PlayerExtendActionDeadline(pid, 3)
				return fmt.Sprint(v), err
			}, false},
			{"PlayerReady", func(id string) (string, error) { return e2s(w.mgr.PlayerReady(id, pid)) }, func(e pt.TableEngine) (string, error) { return e2s(e.PlayerReady(pid)) }, false},
			{"PlayerPay", func(id string) (string, error) { return e2s(w.mgr.PlayerPay(id, pid, 10)) }, func(e pt.TableEngine) (string, error) { return e2s(e.PlayerPay(pid, 10)) }, false},
			{"PlayerBet", func(id string) (string, error) { return e2s(w.mgr.PlayerBet(id, pid, 40)) }, func(e pt.TableEngine) (string, error) { return e2s(e.PlayerBet(pid, 40)) }, false},
			{"PlayerRaise", func(id string) (string, error) { return e2s(w.mgr.PlayerRaise(id, pid, 80)) }, func(e pt.TableEngine) (string, error) { return e2s(e.PlayerRaise(pid, 80)) }, false},
			{"PlayerCall", func(id string) (string, error) { return e2s(w.mgr.PlayerCall(id, pid)) }, func(e pt.TableEngine) (string, error) { return e2s(e.PlayerCall(pid)) }, false},
			{"PlayerAllin", func(id string) (string, error) { return e2s(w.mgr.PlayerAllin(id, pid)) }, func(e pt.TableEngine) (string, error) { return e2s(e.PlayerAllin(pid)) }, false},
			{"PlayerCheck", func(id string) (string, error) { return e2s(w.mgr.PlayerCheck(id, pid)) }, func(e pt.TableEngine) (string, error) { return e2s(e.PlayerCheck(pid)) }, false},
			{"PlayerFold", func(id string) (string, error) { return e2s(w.mgr.PlayerFold(id, pid)) }, func(e pt.TableEngine) (string, error) { return e2s(e.PlayerFold(pid)) }, false},
			{"PlayerPass", func(id string) (string, error) { return e2s(w.mgr.PlayerPass(id, pid)) }, func(e pt.TableEngine) (string, error) { return e2s(e.PlayerPass(pid)) }, false},
			{"SetUpTableGame", func(id string) (string, error) {
				return e2s(w.mgr.SetUpTableGame(id, 1, map[string]int{"a": 0, "b": 1}))
			}, func(e pt.TableEngine) (string, error) {
				e.SetUpTableGame(1, map[string]int{"a": 0, "b": 1})
				return "", nil
			}, false},
			{"CloseTable", func(id string) (string, error) { return e2s(w.mgr.CloseTable(id)) }, func(e pt.TableEngine) (string, error) { return e2s(e.CloseTable()) }, true},
			{"ReleaseTable", func(id string) (string, error) { return e2s(w.mgr.ReleaseTable(id)) }, func(e pt.TableEngine) (string, error) { return e2s(e.ReleaseTable()) }, true},
		}
		// weights: membership and game actions common, terminal operations rare
		wts := make([]int, len(ops))
		for i, o := range ops {
			wts[i] = 10
			if o.ends {
				wts[i] = 1
			}
			if o.name == "PlayerReserve" || o.name == "PlayerJoin" {
				wts[i] = 30
			}
		}
		op := ops[st.Pick(wts...)]
		var res string
		var err error
		expectNotFound := w.gone[id]
		for _, nid := range w.never {
			if nid == id {
				expectNotFound = true
			}
		}
		if w.viaMgr {
			var before, after map[string]string
			atomic := simrt.Atomic(func() {
				before = w.tablesJSON(id)
				res, err = op.mgr(id)
				after = w.tablesJSON(id)
			})
			c.Judged("C17.manager_op")
			if atomic {
				for _, tid := range w.ids { // (a map range here would consume simulator choices only in this twin)
					b, ok := before[tid]
					if ok && after[tid] != b {
						c.Viol("C17", "C17.other_table_affected", map[string]any{"op": op.name}, "Manager.%s(%s) changed table %s: %s", op.name, id, tid, firstDiff(b, after[tid]))
						break
					}
				}
			} else {
				c.Inconc("not_atomic")
			}
			if expectNotFound != (err == pt.ErrManagerTableNotFound) {
				c.Viol("C17", "C17.not_found_result", map[string]any{"op": op.name, "expected_not_found": expectNotFound}, "Manager.%s(%s): expected table-not-found=%v, got %v", op.name, id, expectNotFound, err)
			}
		} else {
			// same atomic structure as the manager run, so that both runs see the same schedule
			simrt.Atomic(func() {
				_ = w.tablesJSON(id)
				if expectNotFound {
					err = pt.ErrManagerTableNotFound
				} else if e := w.engs[id]; e == nil {
					err = pt.ErrManagerTableNotFound
				} else {
					res, err = op.eng(e)
				}
				_ = w.tablesJSON(id)
			})
			if op.name == "PlayerExtendActionDeadline" && err == pt.ErrManagerTableNotFound {
				res = "-1"
			}
			if op.name == "UpdateTablePlayers" && err == pt.ErrManagerTableNotFound {
				res = fmt.Sprint(sortedMap(nil))
			}
		}
		if op.ends && err == nil {
			w.gone[id] = true
		}
		if traceLive {
			c.Logf("DEBUG dec=%d steps=%d maporder=%d", c.Sch.Decisions, c.Sch.Steps, c.St.Get("maporder").Count())
		}
		c.Logf("OP %s(%s, %s) -> %q %v", op.name, id, pid, res, err)
	}
	simrt.Sleep(0, 20*time.Second)
	c.Res.Summary = fmt.Sprintf("tables=%d ops=%d", nT, nOps)
}

func sortedMap(m map[string]int) []string {
	out := make([]string, 0, len(m))
	for k, v := range m {
		out = append(out, fmt.Sprintf("%s:%d", k, v))
	}
	sort.Strings(out)
	return out
}
