#!/usr/bin/env python3
"""vcheck: driver of the deterministic-simulation checks (DESIGN.md section 8).

  vcheck.py check  -p C09 [-t quick|thorough]     run the check of one property
  vcheck.py replay <file>                         replay one replay file against /repo's tree
  vcheck.py selftest [-w world] [-n seeds]        determinism self-test
  vcheck.py probe -w world -s seed -r run [--dump] [-o k=v ...]   run one seed and show the log

Exit status: 0 property held on everything explored; 1 violation (a line
"VIOLATION property=<id> replay=<path>" is printed); 2 infrastructure problem (never a verdict).
"""
import argparse, json, os, subprocess, sys, tempfile, time, shutil, hashlib, copy, glob, signal

VERIF = os.path.dirname(os.path.abspath(__file__))
REPO = os.environ.get("VERIF_REPO", "/repo")
NWORK = int(os.environ.get("VERIF_WORKERS", "16"))

# property -> world and budgets (seconds of simulation wall time, after the build)
PROPS = {
    "C09": dict(world="ogm", quick=40, thorough=420, chunk=4000),
    "C04": dict(world="seat", quick=40, thorough=420, chunk=8000),
    "C01": dict(world="table", quick=45, thorough=480, chunk=1200),
    "C02": dict(world="table", quick=45, thorough=480, chunk=1200),
    "C03": dict(world="table", worlds=[("table", 0.65), ("seat", 0.35)], quick=50, thorough=480, chunk=1200),
    "C05": dict(world="table", quick=45, thorough=480, chunk=1200),
    "C06": dict(world="table", quick=45, thorough=480, chunk=1200),
    "C07": dict(world="table", quick=45, thorough=480, chunk=1200),
    "C08": dict(world="table", quick=45, thorough=480, chunk=1200),
    "C10": dict(world="table", quick=45, thorough=480, chunk=1200),
    "C11": dict(world="table", quick=45, thorough=480, chunk=1200),
    "C12": dict(world="table", quick=45, thorough=480, chunk=1200),
    "C13": dict(world="table", quick=45, thorough=480, chunk=1200, level="fault_enumeration"),
    "C14": dict(world="table", quick=45, thorough=480, chunk=1200),
    "C15": dict(world="table", quick=45, thorough=480, chunk=1200),
    "C16": dict(world="memb", worlds=[("memb", 0.5), ("table", 0.3), ("seat", 0.2)], quick=60, thorough=540, chunk=1500),
    "C17": dict(world="mgr", quick=45, thorough=480, chunk=1500),
    "C18": dict(world="actor", quick=45, thorough=480, chunk=1200),
    "C19": dict(world="actor", quick=45, thorough=480, chunk=1200),
    "C20": dict(world="actor", quick=45, thorough=480, chunk=1200),
}

WORKER_ENV = dict(GODEBUG="randseednop=0", GOMAXPROCS="2")


def log(*a):
    print(*a, flush=True)


def infra(msg):
    log("INFRA-ERROR:", msg)
    sys.exit(2)


class Build:
    def __init__(self):
        base = os.environ.get("TMPDIR", "/tmp")
        self.dir = tempfile.mkdtemp(prefix="vcheck-", dir=base)
        self.scr = os.path.join(self.dir, "scr")
        t0 = time.time()
        r = subprocess.run([os.path.join(VERIF, "scripts/build_scratch.sh"), self.scr], capture_output=True, text=True)
        if r.returncode != 0:
            sys.stderr.write(r.stdout + r.stderr)
            self.cleanup()
            infra("build of the instrumented copy failed")
        self.bin = os.path.join(self.scr, "sim.test")
        self.sites = sorted(glob.glob(os.path.join(self.scr, "sites_*.json")))
        self.build_s = time.time() - t0
        self.njob = 0
        self.tree_hash = tree_hash()

    def cleanup(self):
        shutil.rmtree(self.dir, ignore_errors=True)

    def job(self, **kw):
        self.njob += 1
        jp = os.path.join(self.dir, "job%d.json" % self.njob)
        out = os.path.join(self.dir, "out%d.jsonl" % self.njob)
        j = dict(site_files=self.sites, out=out)
        j.update(kw)
        with open(jp, "w") as f:
            json.dump(j, f)
        return jp, out

    def spawn(self, jp):
        env = dict(os.environ)
        env.update(WORKER_ENV)
        env["VERIF_JOB"] = jp
        return subprocess.Popen([self.bin, "-test.run", "^TestWorker$", "-test.timeout", "0"], env=env,
                                stdout=subprocess.DEVNULL, stderr=subprocess.PIPE, cwd=self.dir)

    def run_job(self, timeout=600, **kw):
        jp, out = self.job(**kw)
        p = self.spawn(jp)
        try:
            _, err = p.communicate(timeout=timeout)
        except subprocess.TimeoutExpired:
            p.kill()
            return None, "timeout"
        res = read_results(out)
        os.unlink(jp)
        if os.path.exists(out):
            os.unlink(out)
        return res, err.decode(errors="replace")


def tree_hash():
    try:
        h = hashlib.sha256()
        for root, dirs, files in os.walk(REPO):
            dirs[:] = sorted(d for d in dirs if d != ".git")
            for fn in sorted(files):
                if fn.endswith(".go") or fn in ("go.mod", "go.sum"):
                    p = os.path.join(root, fn)
                    h.update(p.encode())
                    h.update(open(p, "rb").read())
        return h.hexdigest()[:16]
    except Exception:
        return "?"


def read_results(path):
    res = []
    if not os.path.exists(path):
        return res
    with open(path) as f:
        for line in f:
            line = line.strip()
            if line:
                try:
                    res.append(json.loads(line))
                except Exception:
                    pass
    return res


def vclass(v):
    facts = v.get("facts") or {}
    return v["oracle"] + "".join("|%s=%s" % (k, json.dumps(facts[k])) for k in sorted(facts))


KNOWN = []
CUR_TIER = "quick"


def load_known():
    p = os.path.join(VERIF, "known_findings.json")
    if not os.path.exists(p):
        return []
    global KNOWN
    KNOWN = json.load(open(p)).get("findings", [])
    return KNOWN


def match_known(v, known):
    for k in known:
        if k.get("state") != "open" or k.get("property") != v["property"]:
            continue
        cl = k.get("class", {})
        if cl.get("oracle") != v["oracle"]:
            continue
        facts = v.get("facts") or {}
        if all(facts.get(a) == b for a, b in (cl.get("facts") or {}).items()):
            return k
    return None


# ---------------------------------------------------------------------------------------------
# exploration

class Agg:
    def __init__(self):
        self.runs = 0
        self.stats, self.faults, self.judged, self.probes, self.inconc = {}, {}, {}, {}, {}
        self.fps = set()
        self.nontrivial_fps = set()
        self.samples = []
        self.violations = []  # (result, violation)
        self.infra = []
        self.panics = {}
        self.sim_ms = 0
        self.wall_ms = 0
        self.configs = {}
        self.discarded = 0

    def merge(self, o):
        self.runs += o.runs
        for name in ("stats", "faults", "judged", "probes", "inconc", "panics", "configs"):
            d, e = getattr(self, name), getattr(o, name)
            for k, v in e.items():
                d[k] = d.get(k, 0) + v
        self.fps |= o.fps
        self.nontrivial_fps |= o.nontrivial_fps
        self.samples += o.samples
        self.violations += o.violations
        self.infra += o.infra
        self.sim_ms += o.sim_ms
        self.wall_ms += o.wall_ms
        self.discarded += o.discarded
        return self

    def add(self, r, prop):
        self.runs += 1
        for name, d in (("stats", self.stats), ("faults", self.faults), ("judged", self.judged), ("probes", self.probes), ("inconclusive", self.inconc)):
            for k, v in (r.get(name) or {}).items():
                d[k] = d.get(k, 0) + v
        self.sim_ms += r.get("sim_ms", 0)
        self.wall_ms += r.get("wall_ms", 0)
        fp = r.get("fingerprint", "") + ":" + r.get("log_digest", "")
        self.fps.add(fp)
        judged_here = sum(v for k, v in (r.get("judged") or {}).items() if k.startswith(prop + "."))
        if judged_here > 0:
            self.nontrivial_fps.add(fp)
        for k in ("strategy", "mask"):
            key = "%s=%s" % (k, (r.get("config") or {}).get(k))
            self.configs[key] = self.configs.get(key, 0) + 1
        if len(self.samples) < 4 and judged_here > 0 and self.runs % 7 == 1:
            self.samples.append(dict(seed=r["seed"], run=r["run"], config=r.get("config"), summary=r.get("summary"),
                                     stats=r.get("stats"), faults=r.get("faults"), judged=r.get("judged"), sim_ms=r.get("sim_ms")))
        for p in r.get("panics") or []:
            key = p.get("value", "")[:100]
            self.panics[key] = self.panics.get(key, 0) + 1
        if r.get("infra"):
            self.infra.append((r["run"], r["infra"]))
        # a run that hit a known finding (of any property) is not used for any later conclusion
        vs = r.get("violations") or []
        cut = None
        for i, v in enumerate(vs):
            if match_known(v, KNOWN):
                cut = i
                break
        for i, v in enumerate(vs):
            if cut is not None and i > cut and not match_known(v, KNOWN):
                self.discarded += 1
                continue
            self.violations.append((r, v))


def explore(b, prop, world, tier, seed, budget_s, chunk, extra_job=None):
    agg = Agg()
    t_end = time.time() + budget_s
    next_from = 0
    procs = []
    per = max(20, chunk // 40)
    stop_new = False
    focus_viol_classes = set()
    while True:
        # launch
        while not stop_new and len(procs) < NWORK and time.time() < t_end:
            kw = dict(world=world, property=prop, tier=tier, seed=seed)
            kw["from"] = next_from
            kw["to"] = next_from + per
            if extra_job:
                kw.update(extra_job)
            if os.environ.get("VERIF_OVERRIDE"):
                # triage aid: VERIF_OVERRIDE="focus=C07,players=3"; the replay files carry the overrides
                kw["override"] = dict(kv.split("=", 1) for kv in os.environ["VERIF_OVERRIDE"].split(","))
            jp, out = b.job(**kw)
            procs.append((b.spawn(jp), jp, out, time.time()))
            next_from += per
        if not procs:
            break
        time.sleep(0.05)
        still = []
        for (p, jp, out, t0) in procs:
            rc = p.poll()
            if rc is None:
                if time.time() - t0 > 900:
                    p.kill()
                    agg.infra.append((-1, ["worker watchdog: chunk exceeded 900 s"]))
                else:
                    still.append((p, jp, out, t0))
                continue
            err = p.stderr.read().decode(errors="replace")
            res = read_results(out)
            if rc != 0 and not res:
                agg.infra.append((-1, ["worker exit %d: %s" % (rc, err[-2000:])]))
            elif rc != 0:
                agg.infra.append((-1, ["worker exit %d after %d runs: %s" % (rc, len(res), err[-1500:])]))
            for r in res:
                agg.add(r, prop)
                for v in r.get("violations") or []:
                    if v["property"] == prop:
                        focus_viol_classes.add(vclass(v))
            for f in (jp, out):
                try:
                    os.unlink(f)
                except OSError:
                    pass
        procs = still
        if len(focus_viol_classes) >= 6:
            stop_new = True
        if time.time() >= t_end:
            stop_new = True
    return agg


# ---------------------------------------------------------------------------------------------
# replay, minimisation

def make_replay(b, prop, r, v, streams=None, override=None, stop_at=None):
    return dict(version=1, property=prop, world=r["world"], tier=r.get("tier") or CUR_TIER, violation=v, seed=r["seed"], run_index=r["run"],
                override=override if override is not None else (r.get("override") or {}), stop_at_ms=stop_at or 0,
                streams=streams if streams is not None else r.get("streams") or {}, config=r.get("config"),
                schedule_summary=r.get("schedule_summary"), event_tail=r.get("event_tail"), log_digest=r.get("log_digest"),
                tree_hash=b.tree_hash, toolchain="go1.26.8 testing/synctest")


def run_replay(b, rf, dump=False):
    p = os.path.join(b.dir, "rf%d.json" % (b.njob + 1))
    with open(p, "w") as f:
        json.dump(rf, f)
    res, err = b.run_job(replay=p, property=rf["property"], world=rf["world"], tier=rf.get("tier") or "quick", seed=rf["seed"], dump_log=dump, keep_all=True, timeout=90)
    os.unlink(p)
    if not res:
        return None, err
    return res[0], err


def same_class(res, cls, prop):
    if res is None:
        return None
    for v in res.get("violations") or []:
        if v["property"] == prop and vclass(v) == cls:
            return v
    return None


def run_many(b, rfs):
    """evaluate several replay candidates in parallel; returns list of results"""
    procs = []
    for rf in rfs:
        p = os.path.join(b.dir, "rf%d.json" % (b.njob + 1))
        with open(p, "w") as f:
            json.dump(rf, f)
        jp, out = b.job(replay=p, property=rf["property"], world=rf["world"], tier=rf.get("tier") or "quick", seed=rf["seed"], keep_all=True)
        procs.append((b.spawn(jp), jp, out, p))
    outs = []
    for (pr, jp, out, p) in procs:
        try:
            pr.communicate(timeout=90)
        except subprocess.TimeoutExpired:
            pr.kill()
        res = read_results(out)
        outs.append(res[0] if res else None)
        for f in (jp, out, p):
            try:
                os.unlink(f)
            except OSError:
                pass
    return outs


def minimise(b, prop, r, v, budget_s=40, max_exec=220):
    cls = vclass(v)
    t_end = time.time() + budget_s
    execs = 0
    best = make_replay(b, prop, r, v)
    # 0. does the plain replay reproduce at all?
    res, err = run_replay(b, best)
    execs += 1
    vv = same_class(res, cls, prop)
    if vv is None:
        return None, "replay of the recorded streams did not reproduce class %s (got %s)" % (cls, [vclass(x) for x in (res.get("violations") or [])] if res else err[-500:])
    best = make_replay(b, prop, res, vv, streams=res["streams"])

    def attempt(cands):
        nonlocal best, execs
        outs = run_many(b, cands)
        execs += len(cands)
        for cand, res in zip(cands, outs):
            vv = same_class(res, cls, prop)
            if vv is not None:
                best = make_replay(b, prop, res, vv, streams=res["streams"], override=cand["override"], stop_at=cand["stop_at_ms"])
                return True
        return False

    # 1. truncate the horizon just past the violation
    if vv.get("at_ms", 0) > 0:
        c = copy.deepcopy(best)
        c["stop_at_ms"] = vv["at_ms"] + 50
        attempt([c])
    # 2. drop whole streams / schedule
    for name in sorted(best["streams"], key=lambda n: (n != "sched", n)):
        if time.time() > t_end or execs > max_exec:
            break
        if not best["streams"][name]["nz"]:
            continue
        c = copy.deepcopy(best)
        c["streams"][name]["nz"] = []
        attempt([c])
    # 3. ddmin on the non-zero draws of each stream
    changed = True
    while changed and time.time() < t_end and execs < max_exec:
        changed = False
        for name in sorted(best["streams"], key=lambda n: -len(best["streams"][n]["nz"])):
            nz = best["streams"][name]["nz"]
            n = len(nz)
            if n == 0:
                continue
            gran = 2
            while n >= 1 and time.time() < t_end and execs < max_exec:
                size = max(1, n // gran)
                cands = []
                for start in range(0, n, size):
                    c = copy.deepcopy(best)
                    c["streams"][name]["nz"] = nz[:start] + nz[start + size:]
                    cands.append(c)
                    if len(cands) >= NWORK:
                        break
                if attempt(cands):
                    changed = True
                    nz = best["streams"][name]["nz"]
                    n = len(nz)
                    gran = max(2, gran - 1)
                    if n == 0:
                        break
                else:
                    if size == 1:
                        break
                    gran = min(n, gran * 2)
    best["note"] = "minimised with %d re-executions" % execs
    return best, None


def verify_replay(b, rf, prop):
    cls = vclass(rf["violation"])
    digests = set()
    for _ in range(2):
        res, err = run_replay(b, rf)
        if same_class(res, cls, prop) is None:
            return False, "replay diverged: %s" % ([vclass(x) for x in (res.get("violations") or [])] if res else err[-400:])
        digests.add(res["log_digest"])
    if len(digests) != 1:
        return False, "replay log digests differ: %s" % digests
    rf["log_digest"] = digests.pop()
    return True, None


# ---------------------------------------------------------------------------------------------

def corpus_files(prop):
    return sorted(glob.glob(os.path.join(VERIF, "corpus", prop, "*.json")))


def write_evidence(prop, tier, seed, level, agg, wall_s, nviol, known_hit, extra=None):
    cov = dict(
        evaluations=agg.runs,
        distinct_nontrivial=len(agg.nontrivial_fps),
        rule="one evaluation = one simulated run (one seed: a swarm-drawn configuration, workload, fault plan and schedule). "
             "A run is non-trivial when the property's monitors judged at least one case in it; distinct = distinct "
             "(schedule fingerprint, event-log digest) pairs among those runs. The schedule fingerprint hashes the sequence of "
             "(from task, to task, site) context switches.",
        samples=agg.samples or [dict(note="no sampled run judged a case")],
        sim_seconds=round(agg.sim_ms / 1000.0, 1),
        runs_per_hour=int(agg.runs / max(wall_s, 1e-3) * 3600),
        seeds_per_hour=int(agg.runs / max(wall_s, 1e-3) * 3600),
        fault_counts=agg.faults,
        judged=agg.judged,
        probes=agg.probes,
        inconclusive=agg.inconc,
        scheduler=dict(steps=agg.stats.get("steps", 0), decisions=agg.stats.get("decisions", 0), switches=agg.stats.get("switches", 0),
                       lockwaits=agg.stats.get("lockwaits", 0), tasks=agg.stats.get("tasks", 0),
                       distinct_interleavings=len(agg.fps), switch_pairs_sum=agg.stats.get("switch_pairs", 0)),
        swarm=agg.configs,
        engine_panics=agg.panics,
        known_findings_hit=known_hit,
        components=dict(real=["weedbox/pokertable (all packages, working tree of /repo, mechanically instrumented copy)", "weedbox/syncsaga", "weedbox/timebank",
                              "weedbox/pokerface", "google/uuid", "go-funk"],
                        simulated_environment=["players/admin/observer clients", "transport between clients and table", "fault-injecting wrapper around the real game backend",
                                               "clock (testing/synctest bubble)", "goroutine scheduler (simrt baton)"],
                        stubs=[]),
    )
    if extra:
        cov.update(extra)
    ev = dict(property_id=prop, tier=tier, seed=seed, level=level, coverage=cov, wall_s=round(wall_s, 1), violations=nviol,
              assumptions=["sequentially consistent, statement-granular interleavings (no torn reads / compiler reordering)",
                           "pokerface v0.1.10 is trusted as the rule oracle of what a legal hand is",
                           "sampling, not enumeration: a clean batch is evidence, not proof"])
    os.makedirs(os.path.join(VERIF, "evidence"), exist_ok=True)
    with open(os.path.join(VERIF, "evidence", prop + ".json"), "w") as f:
        json.dump(ev, f, indent=1, sort_keys=True)


def cmd_check(a):
    prop = a.property
    if prop not in PROPS:
        infra("no check registered for %s" % prop)
    cfg = PROPS[prop]
    global CUR_TIER
    tier = a.tier or os.environ.get("VERIF_TIER") or "quick"
    CUR_TIER = tier
    seed = int(os.environ.get("VERIF_SEED", "1"))
    budget = float(os.environ.get("VERIF_BUDGET_S", cfg[tier]))
    t0 = time.time()
    log("vcheck property=%s tier=%s VERIF_SEED=%d world=%s budget=%ss workers=%d" % (prop, tier, seed, cfg["world"], budget, NWORK))
    known = load_known()
    b = Build()
    rc = 0
    try:
        log("build %.1fs tree=%s" % (b.build_s, b.tree_hash))
        nviol = 0
        known_hit = {}
        printed = []
        # 1. regression corpus
        for f in corpus_files(prop):
            rf = json.load(open(f))
            res, err = run_replay(b, rf)
            if res is None:
                infra("corpus replay %s failed to run: %s" % (f, err[-500:]))
            got = [v for v in (res.get("violations") or []) if v["property"] == prop]
            for v in got:
                k = match_known(v, known)
                if k:
                    known_hit[k["id"]] = known_hit.get(k["id"], 0) + 1
                else:
                    nviol += 1
                    log("VIOLATION property=%s replay=%s" % (prop, f))
                    log("  (regression corpus) %s: %s" % (vclass(v), v["message"]))
                    rc = 1
        # 2. exploration
        worlds = cfg.get("worlds") or [(cfg["world"], 1.0)]
        agg = None
        for (wname, share) in worlds:
            a1 = explore(b, prop, wname, tier, seed, budget * share, cfg.get("chunk", 2000), cfg.get("job"))
            log("world %s: %d runs" % (wname, a1.runs))
            agg = a1 if agg is None else agg.merge(a1)
        if agg.infra:
            for run, msgs in agg.infra[:5]:
                log("infra problem in run %s: %s" % (run, msgs))
            write_evidence(prop, tier, seed, cfg.get("level", "exploration"), agg, time.time() - t0, 0, known_hit)
            infra("%d runs reported infrastructure problems" % len(agg.infra))
        # group violations of this property by class
        classes = {}
        other = {}
        for (r, v) in agg.violations:
            if v["property"] != prop:
                other[v["property"]] = other.get(v["property"], 0) + 1
                continue
            classes.setdefault(vclass(v), []).append((r, v))
        for cls, items in sorted(classes.items()):
            r, v = min(items, key=lambda it: (it[0].get("stats", {}).get("decisions", 0), it[0]["run"]))
            k = match_known(v, known)
            if k:
                known_hit[k["id"]] = known_hit.get(k["id"], 0) + len(items)
                continue
            rf, why = minimise(b, prop, r, v)
            if rf is None:
                # keep what is needed to analyse a run that did not replay (determinism bug in the machinery)
                os.makedirs(os.path.join(VERIF, "replays"), exist_ok=True)
                with open(os.path.join(VERIF, "replays", "unreproduced-%s-%d-%d.json" % (prop, seed, r["run"])), "w") as f:
                    json.dump(make_replay(b, prop, r, v), f, indent=1)
                write_evidence(prop, tier, seed, cfg.get("level", "exploration"), agg, time.time() - t0, 0, known_hit)
                infra("violation %s in run %d could not be replayed: %s" % (cls, r["run"], why))
            ok, why = verify_replay(b, rf, prop)
            if not ok:
                write_evidence(prop, tier, seed, cfg.get("level", "exploration"), agg, time.time() - t0, 0, known_hit)
                infra("replay verification failed for %s: %s" % (cls, why))
            os.makedirs(os.path.join(VERIF, "replays"), exist_ok=True)
            path = os.path.join(VERIF, "replays", "%s-%d-%d-%s.json" % (prop, seed, r["run"], hashlib.sha1(cls.encode()).hexdigest()[:8]))
            with open(path, "w") as f:
                json.dump(rf, f, indent=1)
            nviol += 1
            rc = 1
            log("VIOLATION property=%s replay=%s" % (prop, path))
            log("  class %s seen in %d runs; first: seed=%d run=%d" % (cls, len(items), seed, r["run"]))
            log("  %s" % rf["violation"]["message"])
            nzs = {n: len(s["nz"]) for n, s in rf["streams"].items() if s["nz"]}
            log("  minimised choices: %s ; %s" % (nzs, rf.get("note")))
        for k in known:
            if k.get("state") == "open" and k.get("property") == prop and known_hit.get(k["id"]):
                log("KNOWN-FINDING: property=%s %s (%s; hit %d times)" % (prop, k["what"], k["id"], known_hit[k["id"]]))
        wall = time.time() - t0
        write_evidence(prop, tier, seed, cfg.get("level", "exploration"), agg, wall, nviol, known_hit)
        log("runs=%d sim_time=%.0fs wall=%.0fs judged=%s" % (agg.runs, agg.sim_ms / 1000.0, wall, json.dumps(agg.judged, sort_keys=True)))
        log("faults=%s" % json.dumps(agg.faults, sort_keys=True))
        log("probes=%s" % json.dumps(agg.probes, sort_keys=True))
        if agg.inconc:
            log("inconclusive=%s" % json.dumps(agg.inconc, sort_keys=True))
        if agg.panics:
            log("engine panics observed (counted, judged only where a property says so): %s" % json.dumps(agg.panics))
        if agg.discarded:
            log("note: %d violations discarded because they followed a known finding in the same run" % agg.discarded)
        if other:
            log("note: violations of other properties seen in this world (reported by their own checks): %s" % json.dumps(other, sort_keys=True))
        if tier == "thorough":
            for pn, pv in sorted(agg.probes.items()):
                pass
        log("RESULT property=%s %s" % (prop, "VIOLATED" if rc else "held on everything explored"))
    finally:
        b.cleanup()
    sys.exit(rc)


def cmd_replay(a):
    rf = json.load(open(a.file))
    prop = rf["property"]
    b = Build()
    try:
        res, err = run_replay(b, rf, dump=a.dump)
        if res is None:
            infra("replay did not run: %s" % err[-800:])
        if os.environ.get("VERIF_TRACE"):
            sys.stdout.write(err)
        if a.dump:
            for l in res.get("event_tail") or []:
                print(l)
        cls = vclass(rf["violation"]) if rf.get("violation") else None
        got = [v for v in res.get("violations") or [] if v["property"] == prop]
        log("replay %s: log_digest=%s (recorded %s) violations=%s" % (a.file, res.get("log_digest"), rf.get("log_digest"), [vclass(v) for v in got]))
        if res.get("infra"):
            infra(str(res["infra"]))
        if cls and any(vclass(v) == cls for v in got):
            known = load_known()
            k = match_known(rf["violation"], known)
            if k:
                log("KNOWN-FINDING: property=%s %s (%s)" % (prop, k["what"], k["id"]))
                sys.exit(0)
            log("VIOLATION property=%s replay=%s" % (prop, a.file))
            log("  %s" % rf["violation"]["message"])
            sys.exit(1)
        log("not reproduced on this tree")
        sys.exit(0)
    finally:
        b.cleanup()


def cmd_probe(a):
    b = Build()
    try:
        ov = dict(kv.split("=", 1) for kv in (a.override or []))
        res, err = b.run_job(world=a.world, property=a.property or "", tier="probe", seed=a.seed, **{"from": a.run, "to": a.run + a.count}, dump_log=a.dump, keep_all=a.dump, override=ov)
        if not res:
            print(err)
            infra("no result")
        for r in res:
            if a.dump:
                for l in r.get("event_tail") or []:
                    print(l)
            r2 = {k: v for k, v in r.items() if k not in ("streams", "event_tail", "schedule_summary")}
            print(json.dumps(r2, sort_keys=True))
        if err.strip():
            print("stderr:", err[-3000:])
    finally:
        b.cleanup()


def cmd_survey(a):
    """run a batch with no focus property and list every violation class seen"""
    load_known()
    b = Build()
    try:
        agg = explore(b, a.property or "", a.world, "survey", a.seed, a.budget, 4000)
        classes = {}
        for (r, v) in agg.violations:
            key = v["property"] + " " + vclass(v)
            classes.setdefault(key, []).append((r, v))
        for key in sorted(classes):
            r, v = classes[key][0]
            kf = match_known(v, KNOWN)
            log("%6d  %s%s\n        e.g. run %d: %s" % (len(classes[key]), key, "   [known: %s]" % kf["id"] if kf else "", r["run"], v["message"][:700]))
        log("runs=%d judged=%s" % (agg.runs, json.dumps(agg.judged, sort_keys=True)))
        log("probes=%s" % json.dumps(agg.probes, sort_keys=True))
        log("faults=%s inconclusive=%s panics=%s" % (json.dumps(agg.faults, sort_keys=True), json.dumps(agg.inconc), json.dumps(agg.panics)))
        if agg.infra:
            log("INFRA: %s" % agg.infra[:5])
    finally:
        b.cleanup()


def cmd_selftest(a):
    """determinism: same seeds, several processes, different GOMAXPROCS -> identical digests"""
    b = Build()
    try:
        worlds = [a.world] if a.world else sorted(set(c["world"] for c in PROPS.values()))
        bad = 0
        for w in worlds:
            ref = None
            procs = []
            for i in range(a.procs):
                kw = {"from": 0, "to": a.n}
                if os.environ.get("VERIF_OVERRIDE"):
                    kw["override"] = dict(kv.split("=", 1) for kv in os.environ["VERIF_OVERRIDE"].split(","))
                jp, out = b.job(world=w, property="", tier="selftest", seed=a.seed, **kw)
                env = dict(os.environ)
                env.update(WORKER_ENV)
                env["GOMAXPROCS"] = ["1", "4", "16"][i % 3]
                env["VERIF_JOB"] = jp
                procs.append((subprocess.Popen([b.bin, "-test.run", "^TestWorker$", "-test.timeout", "0"], env=env, stdout=subprocess.DEVNULL, stderr=subprocess.PIPE, cwd=b.dir), out))
            for (p, out) in procs:
                p.communicate()
                res = read_results(out)
                sig = [(r["run"], r["log_digest"], r["fingerprint"], r["stats"].get("decisions")) for r in res]
                if ref is None:
                    ref = sig
                elif sig != ref:
                    bad += 1
                    diff = [(x, y) for x, y in zip(ref, sig) if x != y][:3]
                    log("NONDETERMINISM world=%s: %s" % (w, diff))
            log("selftest world=%s seeds=%d procs=%d: %s" % (w, a.n, a.procs, "identical" if not bad else "DIVERGED"))
        sys.exit(2 if bad else 0)
    finally:
        b.cleanup()


def main():
    ap = argparse.ArgumentParser()
    sub = ap.add_subparsers(dest="cmd", required=True)
    c = sub.add_parser("check"); c.add_argument("-p", "--property", required=True); c.add_argument("-t", "--tier")
    r = sub.add_parser("replay"); r.add_argument("file"); r.add_argument("--dump", action="store_true")
    p = sub.add_parser("probe"); p.add_argument("-w", "--world", required=True); p.add_argument("-s", "--seed", type=int, default=1)
    p.add_argument("-r", "--run", type=int, default=0); p.add_argument("-n", "--count", type=int, default=1); p.add_argument("--dump", action="store_true")
    p.add_argument("-o", "--override", action="append"); p.add_argument("-p", "--property")
    s = sub.add_parser("selftest"); s.add_argument("-w", "--world"); s.add_argument("-n", type=int, default=40); s.add_argument("--procs", type=int, default=15); s.add_argument("-s", "--seed", type=int, default=7)
    v = sub.add_parser("survey"); v.add_argument("-w", "--world", required=True); v.add_argument("-s", "--seed", type=int, default=1); v.add_argument("-b", "--budget", type=float, default=15); v.add_argument("-p", "--property")
    a = ap.parse_args()
    dict(survey=cmd_survey, check=cmd_check, replay=cmd_replay, probe=cmd_probe, selftest=cmd_selftest)[a.cmd](a)


if __name__ == "__main__":
    main()
