// Package simrt is the deterministic scheduler ("baton" scheduler) that runs on top of a
// testing/synctest bubble. Goroutines are real, but exactly one holds the baton at any time;
// every scheduling decision is taken by a Strategy (or read back from a replay stream) after
// synctest.Wait() reported quiescence, so a run is a pure function of its choice streams.
//
// The entry points Yield/Block/Unblock/Acquire/Release/Go/Sleep/BlockOn/Recv/MapKeys are
// inserted mechanically by /verif/instr into a scratch copy of the code under test.
package simrt

import (
	"fmt"
	"hash/fnv"
	"os"
	"runtime/debug"
	"sort"
	"strings"
	"sync"
	"syscall"
	"testing/synctest"
	"time"
)

type TaskState int

const (
	stRunning TaskState = iota
	stParked
	stBlocked
	stLockWait
	stDone
)

type Task struct {
	ID     int
	Name   string
	wake   chan struct{}
	state  TaskState
	site   int // site where it last parked / blocked
	prio   int // used by pct strategy
	atomic int
	broken bool // atomic section was broken by a real block
}

// Strategy decides scheduling choices in generation mode.
// cands are sorted by task id. For kind "yield" index 0 of the return value means "continue
// the current task" and i>0 means switch to cands[i-1]; for kind "handover" the value indexes cands.
type Strategy interface {
	Pick(s *Sched, kind string, site int, cur *Task, cands []*Task) int
	OnSpawn(s *Sched, t *Task)
}

type stopSignal struct{}

// IsStopSignal tells whether a recovered value is the scheduler's own unwinding signal (harness
// code that recovers panics of the code under test must re-panic it).
func IsStopSignal(r any) bool { _, ok := r.(stopSignal); return ok }

type PanicInfo struct {
	Task  string `json:"task"`
	Value string `json:"value"`
	Stack string `json:"stack"`
	At    int64  `json:"at_ms"`
}

type Sched struct {
	mu          sync.Mutex
	tasks       []*Task
	cur         *Task
	arbiter     bool
	parked      []*Task
	strategy    Strategy
	dec         *Stream // recorded / replayed decisions
	maporder    *Stream
	MapMode     int // 0 sorted, 1 reversed, 2 random
	stopping    bool
	Mask        []bool // site id -> yield enabled
	Sites       []SiteInfo
	StepLimit   int64
	WallLimitMs int64
	realStart   int64
	wallTick    int64

	Steps       int64
	Switches    int64
	Decisions   int64
	LockWaits   int64
	SimLimitMs  int64 // simulated-time cap of a run (0: none)
	LockHandoff bool  // FIFO hand-off of keyed locks (see AcquireK)
	lockQ       map[any][]*Task
	Spawned     int64
	BudgetHit   bool
	ClockSkew   []string // infrastructure problems: clock moved while the baton was held
	panics      []PanicInfo
	grantAt     time.Time
	fp          uint64 // schedule fingerprint
	pairs       map[uint64]struct{}
	OnSwitch    func(from, to *Task, site int)
	epoch       time.Time
}

type SiteInfo struct {
	ID   int    `json:"id"`
	Pos  string `json:"pos"`
	Kind string `json:"kind"`
	Fn   string `json:"fn"`
	Pkg  string `json:"pkg"`
}

// S is the scheduler of the run in progress (nil outside a simulation: all entry points then
// degrade to the plain Go operation).
var S *Sched

func New(strategy Strategy, dec *Stream, maporder *Stream) *Sched {
	return &Sched{strategy: strategy, dec: dec, maporder: maporder, StepLimit: 12_000_000, WallLimitMs: 40_000, SimLimitMs: 900_000, pairs: map[uint64]struct{}{}}
}

func (s *Sched) removeParked(t *Task) {
	for i, p := range s.parked {
		if p == t {
			s.parked = append(s.parked[:i], s.parked[i+1:]...)
			return
		}
	}
}

func (s *Sched) sortedParked() []*Task {
	c := append([]*Task(nil), s.parked...)
	sort.Slice(c, func(i, j int) bool { return c[i].ID < c[j].ID })
	return c
}

func (s *Sched) awaitGrant(t *Task) {
	<-t.wake
	if s.stopping {
		panic(stopSignal{})
	}
	synctest.Wait()
	s.grantAt = time.Now()
}

func (s *Sched) grant(t *Task) {
	t.state = stRunning
	t.wake <- struct{}{}
}

func (s *Sched) checkClock(where string) {
	if now := time.Now(); !now.Equal(s.grantAt) {
		if len(s.ClockSkew) < 5 {
			name := "?"
			if s.cur != nil {
				name = s.cur.Name
			}
			s.ClockSkew = append(s.ClockSkew, fmt.Sprintf("%s: clock moved %v while task %s held the baton", where, now.Sub(s.grantAt), name))
		}
		s.grantAt = now
	}
}

// Run executes root as task 0 inside the current synctest bubble.
func (s *Sched) Run(root func()) {
	S = s // deliberately left set after the run: late wake-ups must still see the stop flag
	s.epoch = time.Now()
	t := &Task{ID: 0, Name: "root", wake: make(chan struct{}, 1), state: stRunning}
	s.tasks = append(s.tasks, t)
	s.strategy.OnSpawn(s, t)
	s.cur = t
	s.grantAt = time.Now()
	func() {
		defer func() {
			if r := recover(); r != nil {
				if _, ok := r.(stopSignal); !ok {
					s.panics = append(s.panics, PanicInfo{Task: "root", Value: fmt.Sprint(r), Stack: trimStack(debug.Stack()), At: s.NowMs()})
				}
			}
		}()
		root()
	}()
	s.mu.Lock()
	s.stopping = true
	for _, p := range s.tasks {
		if p.state == stParked || p.state == stLockWait {
			select {
			case p.wake <- struct{}{}:
			default:
			}
		}
	}
	s.parked = nil
	s.mu.Unlock()
}

func trimStack(b []byte) string {
	lines := strings.Split(string(b), "\n")
	var keep []string
	for _, l := range lines {
		if strings.Contains(l, "/simrt/") || strings.Contains(l, "runtime/") || strings.HasPrefix(l, "panic(") || strings.HasPrefix(l, "goroutine ") {
			continue
		}
		keep = append(keep, strings.TrimSpace(l))
		if len(keep) >= 16 {
			break
		}
	}
	return strings.Join(keep, " | ")
}

// realNow is the real wall clock (the time package is faked inside the bubble).
func realNow() int64 {
	var tv syscall.Timeval
	syscall.Gettimeofday(&tv)
	return int64(tv.Sec)*1000 + int64(tv.Usec)/1000
}

func (s *Sched) watchdogTrace(t *Task, site int) {
	if os.Getenv("VERIF_WATCHDOG_TRACE") == "" {
		return
	}
	fn := ""
	if site > 0 && site < len(s.Sites) {
		fn = s.Sites[site].Fn + " " + s.Sites[site].Pos
	}
	name := ""
	if t != nil {
		name = t.Name
	}
	fmt.Fprintf(os.Stderr, "WATCHDOG: steps=%d now=%dms current task %s at %s; tasks:", s.Steps, s.NowMs(), name, fn)
	for _, x := range s.tasks {
		if x.state == stParked || x.state == stLockWait {
			f2 := ""
			if x.site > 0 && x.site < len(s.Sites) {
				f2 = s.Sites[x.site].Fn
			}
			fmt.Fprintf(os.Stderr, " [%s st=%d %s]", x.Name, x.state, f2)
		}
	}
	fmt.Fprintln(os.Stderr)
}

// wallExceeded implements the real-time watchdog of a run (a livelocked world must not hold a
// check up for minutes). It ends the run as "budget hit" (inconclusive), never as a verdict.
func (s *Sched) wallExceeded() bool {
	if s.WallLimitMs <= 0 {
		return false
	}
	s.wallTick++
	if s.wallTick&1023 != 0 {
		return false
	}
	if s.realStart == 0 {
		s.realStart = realNow()
		return false
	}
	if s.SimLimitMs > 0 && s.NowMs() > s.SimLimitMs {
		return true // the root task never ended the run (it hangs in the code under test): no horizon, no end
	}
	return realNow()-s.realStart > s.WallLimitMs
}

func (s *Sched) NowMs() int64 { return time.Since(s.epoch).Milliseconds() }

// Stop ends the run from inside (used when a monitor found a violation or a budget is hit).
func (s *Sched) RequestStop() {
	s.mu.Lock()
	if !s.stopping {
		s.stopping = true
		// everybody waiting for the baton unwinds (stop panic in awaitGrant)
		for _, p := range s.tasks {
			if p != s.cur && (p.state == stParked || p.state == stLockWait) {
				select {
				case p.wake <- struct{}{}:
				default:
				}
			}
		}
		s.parked = nil
	}
	s.mu.Unlock()
}

func Go(site int, name string, fn func()) *Task {
	s := S
	if s == nil {
		go fn()
		return nil
	}
	s.mu.Lock()
	t := &Task{ID: len(s.tasks), Name: name, wake: make(chan struct{}, 1), state: stParked, site: site}
	s.tasks = append(s.tasks, t)
	s.parked = append(s.parked, t)
	s.Spawned++
	s.strategy.OnSpawn(s, t)
	s.mu.Unlock()
	go func() {
		defer func() {
			if r := recover(); r != nil {
				if _, ok := r.(stopSignal); ok {
					return
				}
				s.mu.Lock()
				s.panics = append(s.panics, PanicInfo{Task: t.Name, Value: fmt.Sprint(r), Stack: trimStack(debug.Stack()), At: s.NowMs()})
				s.mu.Unlock()
			}
			s.exit(t)
		}()
		s.awaitGrant(t)
		fn()
	}()
	return t
}

func (s *Sched) exit(t *Task) {
	if s.stopping {
		return
	}
	// quiescence first: a goroutine woken by this task's last action must have parked before the
	// next holder is chosen, otherwise the choice would depend on a real-time race
	synctest.Wait()
	s.mu.Lock()
	if s.stopping {
		s.mu.Unlock()
		return
	}
	t.state = stDone
	t.atomic = 0
	s.handoverLocked(t, 0)
	s.mu.Unlock()
}

func (s *Sched) decide(kind string, site int, cur *Task, cands []*Task, n int) int {
	s.Decisions++
	var idx int
	if s.dec.IsReplay() {
		idx = s.dec.Next(n)
	} else {
		idx = s.strategy.Pick(s, kind, site, cur, cands)
		if idx < 0 || idx >= n {
			idx = 0
		}
		s.dec.Record(idx)
	}
	return idx
}

func (s *Sched) noteSwitch(from, to *Task, site int) {
	s.Switches++
	h := fnv.New64a()
	fn, tn := "-", to.Name
	if from != nil {
		fn = from.Name
	}
	fmt.Fprintf(h, "%s>%s@%d", fn, tn, site)
	v := h.Sum64()
	s.pairs[v] = struct{}{}
	s.fp = s.fp*1099511628211 ^ v
	if s.OnSwitch != nil {
		s.OnSwitch(from, to, site)
	}
}

// handoverLocked: the baton holder gives the baton away without staying runnable.
func (s *Sched) handoverLocked(from *Task, site int) {
	cands := s.sortedParked()
	if len(cands) == 0 {
		s.cur = nil
		return
	}
	idx := 0
	if len(cands) > 1 {
		idx = s.decide("handover", site, from, cands, len(cands))
	}
	next := cands[idx]
	s.removeParked(next)
	s.cur = next
	s.noteSwitch(from, next, site)
	s.grant(next)
}

func (s *Sched) enabled(site int) bool {
	if site <= 0 || site >= len(s.Mask) {
		return true
	}
	return s.Mask[site]
}

// Yield is a scheduling point before a statement.
func Yield(site int) {
	s := S
	if s == nil {
		return
	}
	if !s.enabled(site) {
		return
	}
	t := s.cur
	if t == nil || t.atomic > 0 {
		return
	}
	yieldSlow(s, t, site)
}

func yieldSlow(s *Sched, t *Task, site int) {
	s.Steps++
	if s.stopping {
		panic(stopSignal{})
	}
	synctest.Wait()
	s.mu.Lock()
	if s.stopping {
		s.mu.Unlock()
		panic(stopSignal{})
	}
	if s.Steps > s.StepLimit || s.wallExceeded() {
		s.watchdogTrace(t, site)
		s.BudgetHit = true
		s.stopping = true
		s.mu.Unlock()
		panic(stopSignal{})
	}
	s.checkClock("yield")
	cands := s.sortedParked()
	if len(cands) == 0 {
		s.mu.Unlock()
		return
	}
	idx := s.decide("yield", site, t, cands, len(cands)+1)
	if idx == 0 {
		s.mu.Unlock()
		return
	}
	next := cands[idx-1]
	s.removeParked(next)
	t.state = stParked
	t.site = site
	s.parked = append(s.parked, t)
	s.cur = next
	s.noteSwitch(t, next, site)
	s.grant(next)
	s.mu.Unlock()
	s.awaitGrant(t)
}

// ForceYield is a scheduling point that ignores the site mask (used by harness code).
func ForceYield() {
	s := S
	if s == nil {
		return
	}
	t := s.cur
	if t == nil || t.atomic > 0 {
		return
	}
	yieldSlow(s, t, 0)
}

// Block must be called by the baton holder right before a potentially blocking real operation.
func Block(site int) *Task {
	s := S
	if s == nil {
		return nil
	}
	t := s.cur
	s.Steps++
	if s.stopping {
		panic(stopSignal{})
	}
	synctest.Wait()
	s.mu.Lock()
	if s.stopping {
		s.mu.Unlock()
		panic(stopSignal{})
	}
	s.checkClock("block")
	if s.wallExceeded() {
		s.watchdogTrace(t, site)
		s.BudgetHit = true
		s.stopping = true
		s.mu.Unlock()
		panic(stopSignal{})
	}
	if t.atomic > 0 {
		t.broken = true
	}
	t.state = stBlocked
	t.site = site
	s.handoverLocked(t, site)
	s.mu.Unlock()
	return t
}

// Unblock is called by a goroutine right after its blocking operation completed.
func Unblock(t *Task) {
	s := S
	if s == nil || t == nil {
		return
	}
	s.mu.Lock()
	if s.stopping {
		s.mu.Unlock()
		panic(stopSignal{})
	}
	t.state = stParked
	s.parked = append(s.parked, t)
	if s.cur == nil && !s.arbiter {
		s.arbiter = true
		s.mu.Unlock()
		if s.stopping {
			panic(stopSignal{})
		}
		synctest.Wait()
		s.mu.Lock()
		s.arbiter = false
		if s.stopping {
			s.mu.Unlock()
			panic(stopSignal{})
		}
		s.grantAt = time.Now()
		s.handoverLocked(nil, 0) // site 0: the outcome must not depend on who was arbiter
		s.mu.Unlock()
	} else {
		s.mu.Unlock()
	}
	s.awaitGrant(t)
}

// Acquire takes a lock by repeated TryLock; a failed try parks the task as lock waiter.
func Acquire(site int, try func() bool) {
	s := S
	if s == nil {
		for !try() {
			time.Sleep(time.Microsecond)
		}
		return
	}
	Yield(site)
	for !try() {
		t := s.cur
		if s.stopping {
			panic(stopSignal{})
		}
		synctest.Wait()
		s.mu.Lock()
		if s.stopping {
			s.mu.Unlock()
			panic(stopSignal{})
		}
		if t.atomic > 0 {
			t.broken = true
		}
		t.state = stLockWait
		t.site = site
		s.LockWaits++
		s.handoverLocked(t, site)
		s.mu.Unlock()
		s.awaitGrant(t)
	}
}

// AcquireK / ReleaseK: like Acquire / Release, for a mutex whose identity (key, its address) is known.
// With Sched.LockHandoff the lock is handed to its waiters in arrival order and nobody barges in:
// this is what sync.Mutex does in starvation mode, i.e. whenever a waiter has been waiting for more
// than a millisecond - the normal case behind a holder that sleeps. Without it the released lock
// goes to whichever contender the strategy runs first (sync.Mutex in normal mode).
func AcquireK(site int, key any, try func() bool) {
	s := S
	if s == nil || !s.LockHandoff {
		Acquire(site, try)
		return
	}
	Yield(site)
	t := s.cur
	for {
		s.mu.Lock()
		q := s.lockQ[key]
		mayTry := len(q) == 0 || q[0] == t
		s.mu.Unlock()
		if mayTry && try() {
			s.mu.Lock()
			if q := s.lockQ[key]; len(q) > 0 && q[0] == t {
				s.lockQ[key] = q[1:]
			}
			s.mu.Unlock()
			return
		}
		if s.stopping {
			panic(stopSignal{})
		}
		synctest.Wait()
		s.mu.Lock()
		if s.stopping {
			s.mu.Unlock()
			panic(stopSignal{})
		}
		if t.atomic > 0 {
			t.broken = true
		}
		queued := false
		for _, x := range s.lockQ[key] {
			if x == t {
				queued = true
			}
		}
		if !queued {
			if s.lockQ == nil {
				s.lockQ = map[any][]*Task{}
			}
			s.lockQ[key] = append(s.lockQ[key], t)
		}
		t.state = stLockWait
		t.site = site
		s.LockWaits++
		s.handoverLocked(t, site)
		s.mu.Unlock()
		s.awaitGrant(t)
	}
}

func ReleaseK(site int, key any, unlock func()) {
	s := S
	if s == nil || !s.LockHandoff {
		Release(site, unlock)
		return
	}
	if s.stopping {
		return
	}
	unlock()
	s.mu.Lock()
	// wake the head of this lock's queue only: every lock is keyed in this mode, so the waiters of
	// other locks are woken by the release of their own lock
	if q := s.lockQ[key]; len(q) > 0 {
		if head := q[0]; head.state == stLockWait {
			head.state = stParked
			s.parked = append(s.parked, head)
		}
	}
	s.mu.Unlock()
}

func (s *Sched) queuedBehind(key any, t *Task) bool {
	for i, x := range s.lockQ[key] {
		if x == t && i > 0 {
			return true
		}
	}
	return false
}

func Release(site int, unlock func()) {
	s := S
	if s == nil {
		unlock()
		return
	}
	if s.stopping {
		// The run is being torn down by unwinding every task with a stop panic. Deferred unlocks of
		// code that had temporarily released its lock (unlock; sleep; lock) would hit an unlocked
		// mutex - a fatal error, not a panic. Nobody will take the lock again, so it is left alone.
		return
	}
	unlock()
	s.mu.Lock()
	for _, t := range s.tasks {
		if t.state == stLockWait {
			t.state = stParked
			s.parked = append(s.parked, t)
		}
	}
	s.mu.Unlock()
}

func Sleep(site int, d time.Duration) {
	if S == nil || d <= 0 {
		time.Sleep(d)
		return
	}
	t := Block(site)
	time.Sleep(d)
	Unblock(t)
}

func BlockOn(site int, f func()) {
	if S == nil {
		f()
		return
	}
	t := Block(site)
	f()
	Unblock(t)
}

// Recv is `<-c` with a non-blocking first attempt (so that a ready receive keeps the baton).
func Recv[T any](site int, c <-chan T) T {
	v, _ := Recv2(site, c)
	return v
}

func Recv2[T any](site int, c <-chan T) (T, bool) {
	if S == nil {
		v, ok := <-c
		return v, ok
	}
	select {
	case v, ok := <-c:
		return v, ok
	default:
	}
	t := Block(site)
	v, ok := <-c
	Unblock(t)
	return v, ok
}

// Atomic runs f without voluntary context switches. It reports false if f had to block for
// real (the section was then not atomic).
func Atomic(f func()) bool {
	s := S
	if s == nil {
		f()
		return true
	}
	t := s.cur
	t.atomic++
	if t.atomic == 1 {
		t.broken = false
	}
	defer func() { t.atomic-- }()
	f()
	return !t.broken
}

// AtomicBroken reports whether the innermost running Atomic section of the current task has
// already been broken by a real block.
func AtomicBroken() bool {
	s := S
	if s == nil || s.cur == nil {
		return false
	}
	return s.cur.atomic > 0 && s.cur.broken
}

// MapKeys returns the keys of m in an order chosen by the simulator.
func MapKeys[M ~map[K]V, K comparable, V any](site int, m M) []K {
	keys := make([]K, 0, len(m))
	for k := range m {
		keys = append(keys, k)
	}
	if len(keys) < 2 {
		return keys
	}
	sort.Slice(keys, func(i, j int) bool { return lessAny(keys[i], keys[j]) })
	s := S
	if s == nil {
		return keys
	}
	switch s.MapMode {
	case 1:
		for i, j := 0, len(keys)-1; i < j; i, j = i+1, j-1 {
			keys[i], keys[j] = keys[j], keys[i]
		}
	case 2:
		for i := len(keys) - 1; i >= 1; i-- {
			j := i - s.maporder.Draw(i+1)
			keys[i], keys[j] = keys[j], keys[i]
		}
	}
	return keys
}

func lessAny(a, b any) bool {
	switch x := a.(type) {
	case int:
		return x < b.(int)
	case int64:
		return x < b.(int64)
	case string:
		return x < b.(string)
	case int32:
		return x < b.(int32)
	case uint64:
		return x < b.(uint64)
	case bool:
		return !x && b.(bool)
	}
	return fmt.Sprint(a) < fmt.Sprint(b)
}

func (s *Sched) Panics() []PanicInfo { return s.panics }
func (s *Sched) Cur() *Task          { return s.cur }
func (s *Sched) Fingerprint() uint64 { return s.fp }
func (s *Sched) SwitchPairs() int    { return len(s.pairs) }
func (s *Sched) PairSet() map[uint64]struct{} {
	return s.pairs
}
func (s *Sched) Stopping() bool { return s.stopping }

// ParkedIn lists the functions in which other tasks are currently parked (preempted), for
// violation facts.
func (s *Sched) ParkedIn() []string {
	s.mu.Lock()
	defer s.mu.Unlock()
	set := map[string]bool{}
	for _, t := range s.tasks {
		if (t.state == stParked || t.state == stLockWait) && t != s.cur && t.site > 0 && t.site < len(s.Sites) {
			si := s.Sites[t.site]
			if si.Kind == "stmt" && si.Fn != "" {
				set[si.Fn] = true
			}
		}
	}
	var out []string
	for k := range set {
		out = append(out, k)
	}
	sort.Strings(out)
	return out
}

// LockState describes the keyed-lock queues (triage).
func (s *Sched) LockState() string {
	s.mu.Lock()
	defer s.mu.Unlock()
	out := ""
	for k, q := range s.lockQ {
		out += fmt.Sprintf("[%p:", k)
		for _, t := range q {
			fn := ""
			if t.site > 0 && t.site < len(s.Sites) {
				fn = s.Sites[t.site].Fn
			}
			out += fmt.Sprintf(" %s(state %d in %s)", t.Name, t.state, fn)
		}
		out += "]"
	}
	for _, t := range s.tasks {
		if t.state == stLockWait {
			out += " waiter:" + t.Name
		}
	}
	return out
}

// LockWaiters lists the functions in which other tasks are waiting for a mutex (coverage probes).
func (s *Sched) LockWaiters() []string {
	s.mu.Lock()
	defer s.mu.Unlock()
	var out []string
	for _, t := range s.tasks {
		if t.state == stLockWait && t != s.cur && t.site > 0 && t.site < len(s.Sites) {
			out = append(out, s.Sites[t.site].Fn)
		}
	}
	sort.Strings(out)
	return out
}

func CurName() string {
	if S == nil || S.cur == nil {
		return ""
	}
	return S.cur.Name
}

func CurID() int {
	if S == nil || S.cur == nil {
		return -1
	}
	return S.cur.ID
}
