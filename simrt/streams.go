package simrt

import (
	"encoding/json"
	"hash/fnv"
	"math/rand/v2"
	"sort"
)

// Streams is the single source of randomness of a simulated run: named choice streams
// derived from (seed, run). In generation mode draws come from a PRNG and the non-zero ones
// are recorded; in replay mode they are read back (missing => 0, the simplest choice).
type Streams struct {
	Seed    uint64
	Run     uint64
	Replay  bool
	streams map[string]*Stream
	order   []string
}

type Stream struct {
	name   string
	rng    *rand.Rand
	n      int
	nz     [][2]int // recorded non-zero draws (index, value)
	replay map[int]int
	isRep  bool
}

func splitmix(x uint64) uint64 {
	x += 0x9e3779b97f4a7c15
	z := x
	z = (z ^ (z >> 30)) * 0xbf58476d1ce4e5b9
	z = (z ^ (z >> 27)) * 0x94d049bb133111eb
	return z ^ (z >> 31)
}

func NewStreams(seed, run uint64) *Streams {
	return &Streams{Seed: seed, Run: run, streams: map[string]*Stream{}}
}

// StreamsJSON is the serialised form used in replay files.
type StreamsJSON map[string]StreamJSON
type StreamJSON struct {
	N  int      `json:"n"`
	NZ [][2]int `json:"nz"`
}

func NewReplayStreams(j StreamsJSON) *Streams {
	s := &Streams{Replay: true, streams: map[string]*Stream{}}
	for name, sj := range j {
		st := &Stream{name: name, isRep: true, replay: map[int]int{}}
		for _, p := range sj.NZ {
			st.replay[p[0]] = p[1]
		}
		s.streams[name] = st
		s.order = append(s.order, name)
	}
	return s
}

func (s *Streams) Get(name string) *Stream {
	if st, ok := s.streams[name]; ok {
		return st
	}
	st := &Stream{name: name}
	if s.Replay {
		st.isRep = true
		st.replay = map[int]int{}
	} else {
		h := fnv.New64a()
		h.Write([]byte(name))
		a := splitmix(s.Seed ^ splitmix(s.Run+0x1234567) ^ h.Sum64())
		st.rng = rand.New(rand.NewPCG(a, splitmix(a)))
	}
	s.streams[name] = st
	s.order = append(s.order, name)
	return st
}

// Draw returns a value in [0,n). 0 is always the "simplest" choice by convention.
func (st *Stream) Draw(n int) int {
	idx := st.n
	st.n++
	if n <= 1 {
		return 0
	}
	var v int
	if st.isRep {
		v = st.replay[idx]
		if v >= n || v < 0 {
			v = ((v % n) + n) % n
		}
	} else {
		v = st.rng.IntN(n)
	}
	if v != 0 {
		st.nz = append(st.nz, [2]int{idx, v})
	}
	return v
}

// Record stores an externally decided value (used by the scheduler for its decisions).
func (st *Stream) Record(v int) {
	idx := st.n
	st.n++
	if v != 0 {
		st.nz = append(st.nz, [2]int{idx, v})
	}
}

// Next returns the replay value for the next index (replay mode only), bounded by n.
func (st *Stream) Next(n int) int {
	idx := st.n
	v := st.replay[idx]
	if n <= 1 {
		v = 0
	} else if v >= n || v < 0 {
		v = ((v % n) + n) % n
	}
	st.Record(v)
	return v
}

// Chance returns true with probability num/den (false is the simple choice).
func (st *Stream) Chance(num, den int) bool {
	if num <= 0 {
		return false
	}
	// map so that 0 => false
	v := st.Draw(den)
	return v >= den-num && v != 0
}

// Pick chooses an index by weights; index 0 is the simple choice.
func (st *Stream) Pick(weights ...int) int {
	tot := 0
	for _, w := range weights {
		tot += w
	}
	if tot <= 0 {
		return 0
	}
	// draw 0 must map to index 0: rotate so that index 0 owns the lowest interval
	v := st.Draw(tot)
	acc := 0
	for i, w := range weights {
		acc += w
		if v < acc {
			return i
		}
	}
	return 0
}

func (st *Stream) IsReplay() bool { return st.isRep }
func (st *Stream) Count() int     { return st.n }

func (s *Streams) Export() StreamsJSON {
	out := StreamsJSON{}
	names := append([]string(nil), s.order...)
	sort.Strings(names)
	for _, n := range names {
		st := s.streams[n]
		nz := st.nz
		if nz == nil {
			nz = [][2]int{}
		}
		out[n] = StreamJSON{N: st.n, NZ: nz}
	}
	return out
}

func (j StreamsJSON) String() string {
	b, _ := json.Marshal(j)
	return string(b)
}
