module verif.local/simrt

go 1.26.8
