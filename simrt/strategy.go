package simrt

// Scheduling strategies. Their randomness comes from a dedicated stream; the decisions they
// produce are recorded by the scheduler, so replay never consults a strategy.

type FIFO struct{}

func (FIFO) Pick(s *Sched, kind string, site int, cur *Task, cands []*Task) int { return 0 }
func (FIFO) OnSpawn(*Sched, *Task)                                              {}

// Sticky switches at a yield with probability 1/P; handovers pick uniformly.
type Sticky struct {
	R *Stream
	P int
}

func (st *Sticky) Pick(s *Sched, kind string, site int, cur *Task, cands []*Task) int {
	if kind == "yield" {
		if st.R.Draw(st.P) != 1%st.P {
			return 0
		}
		return 1 + st.R.Draw(len(cands))
	}
	return st.R.Draw(len(cands))
}
func (*Sticky) OnSpawn(*Sched, *Task) {}

// PCT: random task priorities, D-1 priority change points spread over the first Horizon decisions.
type PCT struct {
	R       *Stream
	D       int
	Horizon int
	points  map[int64]bool
	low     int
}

func (p *PCT) init() {
	if p.points != nil {
		return
	}
	p.points = map[int64]bool{}
	for i := 0; i < p.D-1; i++ {
		p.points[int64(1+p.R.Draw(p.Horizon))] = true
	}
	p.low = -1
}

func (p *PCT) OnSpawn(s *Sched, t *Task) {
	p.init()
	t.prio = 1 + p.R.Draw(1<<20)
}

func (p *PCT) Pick(s *Sched, kind string, site int, cur *Task, cands []*Task) int {
	p.init()
	if p.points[s.Decisions] && cur != nil {
		cur.prio = p.low
		p.low--
	}
	best, bi := -1<<62, 0
	if kind == "yield" {
		best, bi = cur.prio, 0
		for i, c := range cands {
			if c.prio > best {
				best, bi = c.prio, i+1
			}
		}
		return bi
	}
	for i, c := range cands {
		if c.prio > best {
			best, bi = c.prio, i
		}
	}
	return bi
}

// Random switches uniformly at every decision with probability 1/2.
type Random struct{ R *Stream }

func (r *Random) Pick(s *Sched, kind string, site int, cur *Task, cands []*Task) int {
	if kind == "yield" {
		return r.R.Draw(len(cands) + 1)
	}
	return r.R.Draw(len(cands))
}
func (*Random) OnSpawn(*Sched, *Task) {}
