#!/bin/bash
# try_seed.sh <patch.diff> <budget_s> <property>... : run the quick checks against a seeded change.
# The change is applied to a scratch worktree of /repo's HEAD (VERIF_REPO points the checks at it), so that
# /repo itself stays untouched while background runs use it; equivalent to `git -C /repo apply` + checkout.
PATCH="$1"; BUD="$2"; shift 2
W=/tmp/tryseed.$$
git -C /repo worktree add -q --detach "$W" HEAD || exit 2
trap 'git -C /repo worktree remove --force "$W" >/dev/null 2>&1' EXIT
git -C "$W" apply "$PATCH" || { echo "patch does not apply"; exit 2; }
for p in "$@"; do
  out=$(VERIF_REPO="$W" VERIF_BUDGET_S=$BUD python3 /verif/vcheck.py check -p $p 2>&1)
  rc=$?
  echo "--- $p exit=$rc"
  echo "$out" | grep "VIOLATION\|  class\|INFRA\|RESULT" | cut -c1-260
  echo "$out" | grep -A1 "  class" | grep -v "class\|^--" | cut -c1-400 | head -6
done
