#!/bin/bash
# try_seed.sh <patch.diff> <budget_s> <property>... : apply a seeded change to /repo, run the quick checks, undo it.
PATCH="$1"; BUD="$2"; shift 2
git -C /repo diff --quiet || { echo "/repo is dirty"; exit 2; }
git -C /repo apply "$PATCH" || { echo "patch does not apply"; exit 2; }
trap 'git -C /repo checkout -- . ; git -C /repo clean -fdq' EXIT
for p in "$@"; do
  out=$(VERIF_BUDGET_S=$BUD python3 /verif/vcheck.py check -p $p 2>&1)
  rc=$?
  echo "--- $p exit=$rc"
  echo "$out" | grep "VIOLATION\|  class\|KNOWN-FINDING\|INFRA\|RESULT" | cut -c1-260
  echo "$out" | grep -A1 "  class" | grep -v "class\|^--" | cut -c1-400 | head -6
done
