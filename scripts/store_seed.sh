#!/bin/bash
# store_seed.sh <agent worktree> <id> <property> <patch (optional, default seed_out/patch.diff)>
# Re-verifies a seeded change against /repo's HEAD in a fresh scratch worktree (demo passes without it,
# the patch applies and builds, the demo fails with it, the 51 baseline tests still pass) and stores it
# under /verif/seeded/<id>/ (patch.diff, demo, README, verify.log). meta.json is written separately.
set -u
SRC="$1"; ID="$2"; PROP="$3"; PATCH="${4:-$SRC/seed_out/patch.diff}"
export GOFLAGS=-mod=mod GOPROXY=off GOSUMDB=off
DST=/verif/seeded/$ID
W=/tmp/sseed.$$
git -C /repo worktree add -q --detach "$W" HEAD || exit 2
trap 'git -C /repo worktree remove --force "$W" >/dev/null 2>&1' EXIT
DEMOS=$(git -C "$SRC" status --porcelain | awk '$1=="??"{print $2}' | grep '_test.go$' | grep -v '^seed_out/')
[ -n "$DEMOS" ] || { echo "$ID: no demo test found"; exit 2; }
PKGS=""
for d in $DEMOS; do mkdir -p "$W/$(dirname $d)"; cp "$SRC/$d" "$W/$d"; PKGS="$PKGS ./$(dirname $d)/"; done
PKGS=$(echo $PKGS | tr ' ' '\n' | sort -u | tr '\n' ' ')
cd "$W"
run_demo() { go test -vet=off -count=1 -timeout 10m -run 'TestSeedDemo' $PKGS 2>&1 | tail -30 > "$W/demo.$1.log"; grep -q "^--- FAIL\|^FAIL\|panic:" "$W/demo.$1.log" && echo FAIL || (grep -q "^ok" "$W/demo.$1.log" && echo PASS || echo "?"); }
CLEAN=$(run_demo clean)
git apply "$PATCH" 2>/tmp/sseed_apply.err || { echo "$ID: patch does not apply on HEAD: $(head -3 /tmp/sseed_apply.err)"; exit 1; }
go build ./... || { echo "$ID: does not build"; exit 1; }
PATCHED=$(run_demo patched)
for d in $DEMOS; do rm -f "$W/$d"; done
BASE=$(VERIF_REPO="$W" bash /verif/scripts/baseline.sh | tail -1)
mkdir -p "$DST"
git diff > "$DST/patch.diff"
for d in $DEMOS; do cp "$SRC/$d" "$DST/demo__$(echo $d | tr '/' '_').txt"; done
[ -f "$SRC/seed_out/README.md" ] && cp "$SRC/seed_out/README.md" "$DST/README.md"
{
  echo "verified against /repo HEAD $(git -C /repo rev-parse --short HEAD)"
  echo "demo without patch: $CLEAN"
  echo "demo with patch:    $PATCHED"
  echo "$BASE"
  echo "demos: $DEMOS"
} > "$DST/verify.log"
echo "$ID: clean=$CLEAN patched=$PATCHED | $BASE"
