#!/bin/bash
# verify_seed.sh <agent worktree>: confirm a seeded change independently in a fresh scratch worktree of /repo:
# demo passes without the patch, patch applies and builds, demo fails with it, baseline tests still pass.
# Prints one line per step; leaves nothing behind.
set -u
SRC="$1"
W=/tmp/vseed.$$
export GOFLAGS=-mod=mod GOPROXY=off GOSUMDB=off
git -C /repo worktree add -q --detach "$W" HEAD || exit 2
trap 'git -C /repo worktree remove --force "$W" >/dev/null 2>&1' EXIT
PATCH="$SRC/seed_out/patch.diff"
[ -f "$PATCH" ] || { echo "no patch.diff"; exit 2; }
# demo files: untracked *_test.go files in the agent's worktree (outside seed_out)
DEMOS=$(git -C "$SRC" status --porcelain | awk '$1=="??"{print $2}' | grep '_test.go$' | grep -v '^seed_out/')
[ -n "$DEMOS" ] || { echo "no demo test found"; exit 2; }
PKGS=""
for d in $DEMOS; do mkdir -p "$W/$(dirname $d)"; cp "$SRC/$d" "$W/$d"; PKGS="$PKGS ./$(dirname $d)/"; done
PKGS=$(echo $PKGS | tr ' ' '\n' | sort -u | tr '\n' ' ')
cd "$W"
run_demo() { go test -vet=off -count=1 -timeout 10m -run 'TestSeedDemo' $PKGS 2>&1 | tail -30 > "$W/demo.$1.log"; grep -q "^--- FAIL\|^FAIL\|panic:" "$W/demo.$1.log" && echo FAIL || (grep -q "^ok" "$W/demo.$1.log" && echo PASS || echo "?"); }
echo "demo without patch: $(run_demo clean)"
git apply "$PATCH" 2>/tmp/vseed_apply.err || { echo "patch does not apply: $(head -3 /tmp/vseed_apply.err)"; exit 1; }
go build ./... || { echo "does not build"; exit 1; }
echo "demo with patch:    $(run_demo patched)"
for d in $DEMOS; do rm -f "$W/$d"; done
VERIF_REPO="$W" bash /verif/scripts/baseline.sh | tail -1
git diff --stat | tail -3
