#!/bin/bash
# developer helper: type-check the harness quickly against an existing scratch dir (/tmp/vscr)
export PATH=/opt/veriftools/go1.26.8/bin:$PATH GOFLAGS=-mod=mod GOPROXY=off GOSUMDB=off GOTOOLCHAIN=local
SCR=${1:-/tmp/vscr}
cp /verif/sim/*.go $SCR/sim/ && cp /verif/simrt/*.go $SCR/simrt/ && cd $SCR/sim && go build -tags verif ./... 2>&1 | head -40
