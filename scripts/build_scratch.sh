#!/bin/bash
# Build the instrumented simulation binary from /repo's CURRENT WORKING TREE into a scratch dir.
# usage: build_scratch.sh <scratchdir>   (creates it; caller removes it)
# exit 2 on any infrastructure problem (never a verdict)
set -u
SCR="$1"
VERIF="$(cd "$(dirname "$0")/.." && pwd)"
REPO="${VERIF_REPO:-/repo}"
export PATH=/opt/veriftools/go1.26.8/bin:$PATH
export GOFLAGS=-mod=mod GOPROXY=off GOSUMDB=off GOTOOLCHAIN=local GONOSUMCHECK=1 GONOSUMDB=* GOFLAGS=-mod=mod
MODCACHE="$(go env GOMODCACHE)"
fail() { echo "build_scratch: $*" >&2; exit 2; }
mkdir -p "$SCR" || fail "mkdir"
rsync -a --exclude .git "$REPO"/ "$SCR/pokertable/" || fail "copy repo"
SS="$MODCACHE/github.com/weedbox/syncsaga@v0.0.0-20230821071725-a634f0872340"
TB="$MODCACHE/github.com/weedbox/timebank@v0.0.0-20230713013837-bd7a6f808e3e"
[ -d "$SS" ] && [ -d "$TB" ] || fail "module cache lacks syncsaga/timebank"
cp -r "$SS" "$SCR/syncsaga" && cp -r "$TB" "$SCR/timebank" && chmod -R u+w "$SCR/syncsaga" "$SCR/timebank" || fail "copy deps"
rm -f "$SCR"/syncsaga/*_test.go "$SCR"/timebank/*_test.go
# pokerface (hand rules) runs unmodified except that its map iterations go through simrt.MapKeys:
# Go's randomised map order inside the rule engine (pot contributors) would otherwise break replay.
PF="$MODCACHE/github.com/weedbox/pokerface@v0.1.10"
[ -d "$PF" ] || fail "module cache lacks pokerface"
mkdir -p "$SCR/pokerface" && cp "$PF"/*.go "$SCR/pokerface/" && cp -r "$PF/pot" "$PF/settlement" "$PF/combination" "$SCR/pokerface/" && chmod -R u+w "$SCR/pokerface" || fail "copy pokerface"
find "$SCR/pokerface" -name '*_test.go' -delete
cat > "$SCR/pokerface/go.mod" <<EOT
module github.com/weedbox/pokerface

go 1.19

require github.com/google/uuid v1.3.1
require verif.local/simrt v0.0.0
replace verif.local/simrt => ../simrt
EOT
cp -r "$VERIF/simrt" "$SCR/simrt" && cp -r "$VERIF/sim" "$SCR/sim" || fail "copy harness"
# module wiring
cat >> "$SCR/pokertable/go.mod" <<EOT

require verif.local/simrt v0.0.0
replace verif.local/simrt => ../simrt
replace github.com/weedbox/syncsaga => ../syncsaga
replace github.com/weedbox/timebank => ../timebank
replace github.com/weedbox/pokerface => ../pokerface
EOT
cat >> "$SCR/syncsaga/go.mod" <<EOT

require verif.local/simrt v0.0.0
replace verif.local/simrt => ../simrt
replace github.com/weedbox/timebank => ../timebank
EOT
cat >> "$SCR/timebank/go.mod" <<EOT

require verif.local/simrt v0.0.0
replace verif.local/simrt => ../simrt
EOT
cat "$SCR/pokertable/go.sum" "$VERIF/sim/go.sum.extra" 2>/dev/null | sort -u > "$SCR/sim/go.sum"
INSTR="$VERIF/bin/instr"
{ [ -x "$INSTR" ] && [ "$INSTR" -nt "$VERIF/instr/main.go" ]; } || (cd "$VERIF/instr" && go build -o "$INSTR" . ) || fail "build instr"
base=1
run_instr() { # dir name patterns...
  local dir="$1" name="$2"; shift 2
  out=$("$INSTR" -dir "$dir" -tags verif -sitebase $base -sites "$SCR/sites_$name.json" "$@" 2>&1) || { echo "$out" >&2; fail "instr $name"; }
  base=$(echo "$out" | sed -n 's/.*next base \([0-9]*\)).*/\1/p')
  [ -n "$base" ] || { echo "$out" >&2; fail "instr $name: no base"; }
}
cp "$SCR/sim/go.sum" "$SCR/pokerface/go.sum" 2>/dev/null
run_instr "$SCR/pokerface" pokerface ./ ./pot ./settlement ./combination
run_instr "$SCR/timebank" timebank ./
run_instr "$SCR/syncsaga" syncsaga ./
run_instr "$SCR/pokertable" pokertable ./ ./seat_manager ./open_game_manager ./actor
run_instr "$SCR/sim" sim ./
(cd "$SCR/sim" && go test -c -tags verif -o "$SCR/sim.test" . 2>&1) || fail "compile"
echo "build_scratch: ok ($((base-1)) sites)"
