#!/usr/bin/env python3
"""Regenerates MANIFEST.json from the table below (keeps it valid and in sync with vcheck.py)."""
import json, os, subprocess
V = os.path.dirname(os.path.dirname(os.path.abspath(__file__)))
TECH = "deterministic simulation with fault injection"
P = {
 "C01": ("W-TABLE", "seeded simulated table runs (real engine, seat manager, gate, native backend; simulated players/admin/transport; statement-level schedules) with a chip ledger audited whenever no hand is in progress and a per-hand delta check keyed by the roster fixed at open; buy-in / re-buy / add-on / leave between and during hands", "6/C01", "seeded schedules + membership/top-up faults, ledger and per-hand reference model"),
 "C02": ("W-TABLE", "roster monitor over every published snapshot of every simulated hand (clockwise order, stability, starting stacks, attribution of accepted actions read atomically from the authoritative hand state, settlement keyed by the open-time roster)", "6/C02", "seeded schedules, arrivals/departures during hands, roster reference model"),
 "C03": ("W-TABLE (+W-SEAT)", "invariants on every snapshot, judged (atomic before/after) membership calls for all-or-nothing, persistent table/seat-manager disagreement via the verif accessor; seat-manager level histories in W-SEAT", "6/C03", "seeded operation histories valid and invalid, judged calls under the baton scheduler"),
 "C04": ("W-SEAT", "seeded search over histories of seat / join / bust / re-buy / leave / init / rotate operations on the real seat manager (seat counts 2..10, both rules), every rotation judged against a reference model written from the statement", "6/C04", "seeded operation-sequence search against a reference model"),
 "C05": ("W-TABLE", "eligibility monitor on every opened snapshot (dealt-in subset of seated-in with chips, continuity, newcomer waiting, at most three missed hands, seat-manager flag = dealt-in flag via accessor)", "6/C05", "seeded arrival/bust/re-buy histories over many simulated hands"),
 "C06": ("W-TABLE", "independent label computation from the published button seats and dealt-in set on every opened snapshot, engine labels on the first hand state, next-BB order at settlement", "6/C06", "seeded histories reaching dead-button / heads-up transitions, reference model"),
 "C07": ("W-TABLE", "life-cycle automaton over every notification in emission order, hand numbering, fresh game ids, reset of per-hand fields (auditor with persistence), no open after close/release/break/unset blinds", "6/C07", "seeded schedules and admin interventions (pause/close/release/blind changes) at arbitrary instants"),
 "C08": ("W-TABLE", "bounded liveness after every settlement under a simulated clock: pause iff condition, otherwise the next hand opens within interval + open-game timeout + slack when the premises held continuously; wedge = simulated quiescence in standby", "6/C08", "simulated clock, withheld settlement-finish signals, busts/arrivals, bounded-liveness oracle"),
 "C09": ("W-OGM", "seeded search over set-up/signal/crash-restore histories and statement-level schedules of the real gate + syncsaga + timebank under a simulated clock, judged online against a generation model", "6/C09", "seeded schedules, simulated clock, gate crash/restore"),
 "C10": ("W-TABLE", "every client and rogue action is a judged call: expected refusal from the authoritative hand state read in the same atomic section, refused => byte-identical table/hand/seat-manager/gate state and no event, accepted => applied once and published", "6/C10", "rogue/stale/duplicated requests (transport faults), judged calls"),
 "C11": ("W-TABLE", "request-phase monitor (asked set, no advance before all answered or 17 s, advance right after), hands finish when all participants respond (bounded liveness after the fault window)", "6/C11", "withheld / duplicated / delayed answers, simulated clock, bounded-liveness oracle"),
 "C12": ("W-TABLE", "blind level of every hand compared with the set of levels that can have been in force when it opened (updates overlapping the open are accepted either way, mixtures and lost updates are not); break handling", "6/C12", "admin blind updates at drawn instants, statement-level schedules in the open path"),
 "C13": ("W-TABLE", "fault-injecting wrapper around the real backend: failures by kind, once or consecutively, and slowness; judged failed calls (error returned, no trace, retry), chain integrity of states between backend calls, engine-driven failures must reach the error callback", "6/C13", "backend fault injection through the GameBackend seam"),
 "C14": ("W-TABLE", "statistics at settlement compared with the harness record of accepted actions; did-flags imply chance-flags; cleared before the next hand", "6/C14", "seeded betting lines, statement-level schedules around actions and settlement"),
 "C16": ("W-MEMB + W-TABLE(stampede) + W-SEAT", "2..16 caller tasks issue reservations / departures / batch updates at the same simulated instant under statement-level schedules; the recorded history (global event sequence numbers, seat observed through the reserved callback) is checked for linearizability against a sequential seat-table model with porcupine, then the C03 bookkeeping is checked; in W-TABLE every participant submits duplicated game actions from separate tasks at every turn (non-atomic calls): a step applied twice to one hand state (fork) is reported; W-SEAT adds concurrent seat-manager assigners", "6/C16", "seeded statement-level schedules (PCT / sticky / random), porcupine linearizability check, fork detection at the backend seam"),
 "C17": ("W-MGR", "twin run: the same seed is executed twice in one process, once through Manager.X(tableID, ...) and once on the engines themselves, with the manager's own statements masked from the scheduler; the two complete event logs must be identical; every manager operation is an atomic section with a before/after comparison of all other tables; unknown / closed / released ids must give the not-found error", "6/C17", "deterministic twin execution (refinement by replay), 22 manager operations over 1..5 tables"),
 "C18": ("W-ACTOR", "the repository's bot runners (humanised or not) play whole tables through recording adapters in front of the real engine: every call must be for the bot itself and accepted, at most one per request, bot-only hands settle (bounded liveness)", "6/C18", "simulated clock and backend latency, stacks from one chip, seeded schedules"),
 "C19": ("W-ACTOR", "player runners that never receive human input (running / idle / suspended, status changes at drawn instants): recorded calls are only pass / ready / check / fold / mandatory pay of the posted size, most conservative first, never before the thinking time has elapsed unless suspended", "6/C19", "simulated clock (thinking-time timers), status changes as faults, seeded schedules"),
 "C20": ("W-ACTOR", "every table handed to a non-system observer is inspected for deck / burned cards / hole cards / hand strength in every status (workload includes a pause or close request in the middle of a hand); the observer scribbles over its copy and the handed-out value, the other actors' views and the engine's table are compared before/after", "6/C20", "pause/close at drawn instants, seeded schedules, before/after isolation oracle"),
 "C15": ("W-TABLE", "published deadline per turn = request time + action time (simulated clock), cleared on round close and between hands", "6/C15", "simulated clock, concurrent publishers"),
}
LEVEL = {"C13": "fault_enumeration"}
m = dict(version=1, setup_cmd="bash scripts/setup.sh",
         hooks=dict(guard="verif", enable="go build tag `verif` (checks compile an instrumented scratch copy of /repo's working tree with -tags verif)",
                    baseline_off_cmd="bash /verif/scripts/baseline.sh", source_commits=["3d270cd"], add_only=True),
         engines=[dict(name="simrt+instr+sim", path="/verif", serves_properties=sorted(P),
                       kind_free_text="deterministic simulation: testing/synctest bubble (fake clock, quiescence) + baton scheduler + mechanical source instrumentation + seeded swarm/fault injection + reference-model monitors")],
         checks=[], notes="see DESIGN.md; known_findings.json lists genuine defects (fixed and open)", not_applicable=[])
for pid in sorted(P):
    world, text, ref, tech = P[pid]
    m["checks"].append(dict(property_id=pid, quick_cmd="python3 vcheck.py check -p %s -t quick" % pid, thorough_cmd="python3 vcheck.py check -p %s -t thorough" % pid,
        evidence_file="/verif/evidence/%s.json" % pid, replay_cmd_template="python3 vcheck.py replay {path}", engine="simrt+instr+sim",
        level_claimed=dict(category=LEVEL.get(pid, "exploration"), text=world + ": " + text, design_ref=ref),
        level_note="sampling, not enumeration; sequentially consistent statement-granular interleavings; pokerface trusted as rule oracle; spec parameters (17 s response timeout, 2 s open-game timeout, label order) taken from the property text",
        technique=TECH + ": " + tech))
ALL = ["C%02d" % i for i in range(1, 21)]
PENDING = {}
for pid in ALL:
    if pid not in P:
        m["not_applicable"].append(dict(property_id=pid, reason=PENDING.get(pid, "not claimed")))
json.dump(m, open(os.path.join(V, "MANIFEST.json"), "w"), indent=1)
print("manifest: %d checks, %d not claimed" % (len(m["checks"]), len(m["not_applicable"])))
