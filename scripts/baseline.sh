#!/bin/bash
# Run the repository's own test suite with the verif guard OFF and compare the passing tests with
# /root/.vp/BASELINE.json (stable_pass). Exit 0 iff every baseline test still passes.
cd "${VERIF_REPO:-/repo}" || exit 2
go test -json -vet=off -count=1 -timeout 25m ./... > /tmp/verif_baseline.json 2>/dev/null
python3 - <<'PY'
import json,sys
passed=set()
for line in open('/tmp/verif_baseline.json'):
    try: e=json.loads(line)
    except Exception: continue
    if e.get('Action')=='pass' and e.get('Test'):
        passed.add(e['Package']+'::'+e['Test'])
base=json.load(open('/root/.vp/BASELINE.json'))['stable_pass']
missing=[t for t in base if t not in passed]
print("baseline tests: %d, passing now: %d, missing: %s" % (len(base), len([t for t in base if t in passed]), missing))
sys.exit(1 if missing else 0)
PY
