#!/bin/bash
# Build the framework's tools from files on disk only (offline) and warm the go1.26.8 build cache.
set -e
cd "$(dirname "$0")/.."
export PATH=/opt/veriftools/go1.26.8/bin:$PATH
export GOFLAGS=-mod=mod GOPROXY=off GOSUMDB=off GOTOOLCHAIN=local
mkdir -p bin evidence replays
(cd instr && go build -o ../bin/instr .)
# warm-up build of the instrumented copy (also proves the pipeline works on this machine)
SCR=$(mktemp -d "${TMPDIR:-/tmp}/vsetup-XXXXXX")
trap 'rm -rf "$SCR"' EXIT
scripts/build_scratch.sh "$SCR/scr"
echo "setup ok"
