#!/bin/bash
# sweep.sh <tier> <budget_s> <seed> [props...]: run the checks of all (or the given) properties one after the other
TIER=${1:-thorough}; BUD=${2:-240}; SEED=${3:-1}; shift 3
PROPS="$@"; [ -z "$PROPS" ] && PROPS="C01 C02 C03 C04 C05 C06 C07 C08 C09 C10 C11 C12 C13 C14 C15 C16 C17 C18 C19 C20"
for p in $PROPS; do
  echo "=== $p tier=$TIER seed=$SEED"
  VERIF_SEED=$SEED VERIF_BUDGET_S=$BUD python3 vcheck.py check -p $p -t $TIER 2>&1 | grep -v "^WARNING conda" | grep "VIOLATION\|KNOWN-FINDING\|RESULT\|INFRA\|  class\|^  \|runs=\|note:" | cut -c1-400
done
