// instr: type-aware source instrumentation inserting simrt scheduling points.
//
//	instr -dir <module dir> -sites out.json -sitebase N [-tags t] [pkg patterns...]
//
// Rewrites the non-test files of the matched packages IN PLACE. It is only ever run on a
// scratch copy of the code under test (never on /repo). Exit status 2 = unsupported construct
// or load failure (infrastructure), never a verdict.
package main

import (
	"bytes"
	"encoding/json"
	"flag"
	"fmt"
	"go/ast"
	"go/format"
	"go/token"
	"go/types"
	"os"
	"strings"

	"golang.org/x/tools/go/ast/astutil"
	"golang.org/x/tools/go/packages"
)

const simrtPath = "verif.local/simrt"

type site struct {
	ID   int    `json:"id"`
	Pos  string `json:"pos"`
	Kind string `json:"kind"`
	Fn   string `json:"fn"`
	Pkg  string `json:"pkg"`
}

type rw struct {
	fset  *token.FileSet
	info  *types.Info
	used  bool
	tmp   int
	sites *[]site
	base  string
	pkg   string
	fn    string
	fatal []string
}

func (r *rw) newSite(pos token.Pos, kind string) int {
	p := r.fset.Position(pos)
	id := len(*r.sites)
	*r.sites = append(*r.sites, site{ID: id, Pos: fmt.Sprintf("%s:%d", strings.TrimPrefix(p.Filename, r.base), p.Line), Kind: kind, Fn: r.fn, Pkg: r.pkg})
	return id
}

func (r *rw) name(prefix string) *ast.Ident {
	r.tmp++
	return ast.NewIdent(fmt.Sprintf("__%s%d", prefix, r.tmp))
}

func sel(x, s string) *ast.SelectorExpr {
	return &ast.SelectorExpr{X: ast.NewIdent(x), Sel: ast.NewIdent(s)}
}

func (r *rw) call(fn string, args ...ast.Expr) *ast.CallExpr {
	r.used = true
	return &ast.CallExpr{Fun: sel("simrt", fn), Args: args}
}

func intLit(i int) ast.Expr { return &ast.BasicLit{Kind: token.INT, Value: fmt.Sprint(i)} }
func strLit(s string) ast.Expr {
	return &ast.BasicLit{Kind: token.STRING, Value: fmt.Sprintf("%q", s)}
}

func define(lhs ast.Expr, rhs ast.Expr) ast.Stmt {
	return &ast.AssignStmt{Lhs: []ast.Expr{lhs}, Tok: token.DEFINE, Rhs: []ast.Expr{rhs}}
}

func (r *rw) block(b *ast.BlockStmt) {
	if b == nil {
		return
	}
	b.List = r.stmts(b.List)
}

// funcLits rewrites bodies of function literals appearing in the statement's own expressions.
func (r *rw) funcLits(n ast.Node, root ast.Node) {
	if n == nil {
		return
	}
	ast.Inspect(n, func(x ast.Node) bool {
		switch y := x.(type) {
		case *ast.FuncLit:
			r.block(y.Body)
			return false
		case *ast.BlockStmt:
			return x == root
		case *ast.CaseClause, *ast.CommClause:
			return false
		}
		return true
	})
}

func (r *rw) stmts(list []ast.Stmt) []ast.Stmt {
	var out []ast.Stmt
	for _, s := range list {
		r.inner(s)
		repl := r.transform(s)
		switch s.(type) {
		case *ast.DeclStmt, *ast.EmptyStmt:
		default:
			out = append(out, &ast.ExprStmt{X: r.call("Yield", intLit(r.newSite(s.Pos(), "stmt")))})
		}
		out = append(out, repl...)
	}
	return out
}

func (r *rw) inner(s ast.Stmt) {
	switch x := s.(type) {
	case *ast.BlockStmt:
		r.block(x)
	case *ast.IfStmt:
		if x.Init != nil {
			r.funcLits(x.Init, nil)
		}
		r.funcLits(x.Cond, nil)
		r.block(x.Body)
		if x.Else != nil {
			switch e := x.Else.(type) {
			case *ast.BlockStmt:
				r.block(e)
			case *ast.IfStmt:
				r.inner(e)
			}
		}
	case *ast.ForStmt:
		if x.Init != nil {
			r.funcLits(x.Init, nil)
		}
		if x.Cond != nil {
			r.funcLits(x.Cond, nil)
		}
		if x.Post != nil {
			r.funcLits(x.Post, nil)
		}
		r.block(x.Body)
	case *ast.RangeStmt:
		r.funcLits(x.X, nil)
		r.block(x.Body)
	case *ast.SwitchStmt:
		if x.Init != nil {
			r.funcLits(x.Init, nil)
		}
		if x.Tag != nil {
			r.funcLits(x.Tag, nil)
		}
		for _, c := range x.Body.List {
			cc := c.(*ast.CaseClause)
			cc.Body = r.stmts(cc.Body)
		}
	case *ast.TypeSwitchStmt:
		for _, c := range x.Body.List {
			cc := c.(*ast.CaseClause)
			cc.Body = r.stmts(cc.Body)
		}
	case *ast.SelectStmt:
		for _, c := range x.Body.List {
			cc := c.(*ast.CommClause)
			cc.Body = r.stmts(cc.Body)
		}
	case *ast.LabeledStmt:
		r.inner(x.Stmt)
	default:
		r.funcLits(s, s)
	}
}

func (r *rw) isPkgFunc(e ast.Expr, pkg, name string) bool {
	se, ok := e.(*ast.SelectorExpr)
	if !ok || se.Sel.Name != name {
		return false
	}
	id, ok := se.X.(*ast.Ident)
	if !ok {
		return false
	}
	pn, ok := r.info.Uses[id].(*types.PkgName)
	return ok && pn.Imported().Path() == pkg
}

// syncMethod returns (recvTypeName, methodName) if call is a method of sync.Mutex/RWMutex/WaitGroup.
func (r *rw) syncMethod(c *ast.CallExpr) (string, string, *ast.SelectorExpr) {
	se, ok := c.Fun.(*ast.SelectorExpr)
	if !ok {
		return "", "", nil
	}
	s := r.info.Selections[se]
	if s == nil {
		return "", "", nil
	}
	fn, ok := s.Obj().(*types.Func)
	if !ok || fn.Pkg() == nil || fn.Pkg().Path() != "sync" {
		return "", "", nil
	}
	sig := fn.Type().(*types.Signature)
	if sig.Recv() == nil {
		return "", "", nil
	}
	rt := sig.Recv().Type()
	if p, ok := rt.(*types.Pointer); ok {
		rt = p.Elem()
	}
	nt, ok := rt.(*types.Named)
	if !ok {
		return "", "", nil
	}
	return nt.Obj().Name(), fn.Name(), se
}

func simpleExpr(e ast.Expr) bool {
	switch x := e.(type) {
	case *ast.Ident, *ast.BasicLit:
		return true
	case *ast.SelectorExpr:
		return simpleExpr(x.X)
	case *ast.ParenExpr:
		return simpleExpr(x.X)
	case *ast.StarExpr:
		return simpleExpr(x.X)
	case *ast.UnaryExpr:
		if x.Op == token.AND {
			if _, ok := x.X.(*ast.CompositeLit); ok {
				return false
			}
			return simpleExpr(x.X)
		}
	case *ast.CompositeLit:
		// struct{}{} is the common case
		return len(x.Elts) == 0
	}
	return false
}

func (r *rw) transform(s ast.Stmt) []ast.Stmt {
	switch x := s.(type) {
	case *ast.LabeledStmt:
		t := r.transform(x.Stmt)
		if len(t) == 1 {
			if b, ok := t[0].(*ast.BlockStmt); ok && t[0] != x.Stmt {
				_ = b
				r.fatal = append(r.fatal, fmt.Sprintf("labeled statement needing rewrite at %s", r.fset.Position(x.Pos())))
			}
			x.Stmt = t[0]
		} else {
			r.fatal = append(r.fatal, fmt.Sprintf("labeled statement needing rewrite at %s", r.fset.Position(x.Pos())))
		}
		return []ast.Stmt{x}
	case *ast.GoStmt:
		return r.goStmt(x)
	case *ast.SendStmt:
		// try first without blocking, so that a send that can proceed keeps the baton
		site := r.newSite(x.Pos(), "send")
		c, t := r.name("c"), r.name("t")
		var pre []ast.Stmt
		pre = append(pre, define(c, x.Chan))
		var v ast.Expr = x.Value
		if !simpleExpr(x.Value) {
			vn := r.name("v")
			pre = append(pre, define(vn, x.Value))
			v = vn
		}
		selStmt := &ast.SelectStmt{Body: &ast.BlockStmt{List: []ast.Stmt{
			&ast.CommClause{Comm: &ast.SendStmt{Chan: c, Value: v}},
			&ast.CommClause{Comm: nil, Body: []ast.Stmt{
				define(t, r.call("Block", intLit(site))),
				&ast.SendStmt{Chan: c, Value: v},
				&ast.ExprStmt{X: r.call("Unblock", t)},
			}},
		}}}
		return []ast.Stmt{&ast.BlockStmt{List: append(pre, selStmt)}}
	case *ast.ExprStmt:
		if c, ok := x.X.(*ast.CallExpr); ok {
			if st := r.syncCall(c, false); st != nil {
				return st
			}
			if r.isPkgFunc(c.Fun, "time", "Sleep") {
				site := r.newSite(x.Pos(), "sleep")
				return []ast.Stmt{&ast.ExprStmt{X: r.call("Sleep", intLit(site), c.Args[0])}}
			}
		}
	case *ast.DeferStmt:
		if st := r.syncCall(x.Call, true); st != nil {
			return st
		}
	case *ast.RangeStmt:
		return r.rangeStmt(x)
	case *ast.SelectStmt:
		hasDefault := false
		for _, c := range x.Body.List {
			if c.(*ast.CommClause).Comm == nil {
				hasDefault = true
			}
		}
		if hasDefault {
			return []ast.Stmt{x}
		}
		t := r.name("t")
		site := r.newSite(x.Pos(), "select")
		for _, c := range x.Body.List {
			cc := c.(*ast.CommClause)
			cc.Body = append([]ast.Stmt{&ast.ExprStmt{X: r.call("Unblock", t)}}, cc.Body...)
		}
		return []ast.Stmt{&ast.BlockStmt{List: []ast.Stmt{define(t, r.call("Block", intLit(site))), x}}}
	}
	return []ast.Stmt{s}
}

func (r *rw) syncCall(c *ast.CallExpr, deferred bool) []ast.Stmt {
	typ, m, se := r.syncMethod(c)
	if se == nil {
		return nil
	}
	mv := func(name string) ast.Expr { return &ast.SelectorExpr{X: se.X, Sel: ast.NewIdent(name)} }
	// the mutex's identity (its address) lets the scheduler model FIFO hand-off per lock
	key := func() ast.Expr {
		if t := r.info.TypeOf(se.X); t != nil {
			if _, isPtr := t.Underlying().(*types.Pointer); isPtr {
				return se.X
			}
		}
		return &ast.UnaryExpr{Op: token.AND, X: se.X}
	}
	var call *ast.CallExpr
	switch {
	case (typ == "Mutex" || typ == "RWMutex") && m == "Lock":
		call = r.call("AcquireK", intLit(r.newSite(c.Pos(), "lock")), key(), mv("TryLock"))
	case typ == "RWMutex" && m == "RLock":
		call = r.call("AcquireK", intLit(r.newSite(c.Pos(), "lock")), key(), mv("TryRLock"))
	case (typ == "Mutex" || typ == "RWMutex") && (m == "Unlock" || m == "RUnlock"):
		call = r.call("ReleaseK", intLit(r.newSite(c.Pos(), "unlock")), key(), mv(m))
	case typ == "WaitGroup" && m == "Wait":
		call = r.call("BlockOn", intLit(r.newSite(c.Pos(), "wait")), mv("Wait"))
	case typ == "Cond":
		r.fatal = append(r.fatal, fmt.Sprintf("unsupported sync.%s.%s at %s", typ, m, r.fset.Position(c.Pos())))
		return nil
	default:
		return nil
	}
	if deferred {
		return []ast.Stmt{&ast.DeferStmt{Call: call}}
	}
	return []ast.Stmt{&ast.ExprStmt{X: call}}
}

func (r *rw) goStmt(g *ast.GoStmt) []ast.Stmt {
	site := r.newSite(g.Pos(), "go")
	var list []ast.Stmt
	var fun ast.Expr = g.Call.Fun
	if _, isLit := g.Call.Fun.(*ast.FuncLit); !isLit {
		f := r.name("f")
		list = append(list, define(f, g.Call.Fun))
		fun = f
	}
	var args []ast.Expr
	for _, a := range g.Call.Args {
		n := r.name("a")
		list = append(list, define(n, a))
		args = append(args, n)
	}
	inner := &ast.CallExpr{Fun: fun, Args: args, Ellipsis: g.Call.Ellipsis}
	p := r.fset.Position(g.Pos())
	nm := fmt.Sprintf("%s:%d", strings.TrimPrefix(p.Filename, r.base), p.Line)
	list = append(list, &ast.ExprStmt{X: r.call("Go", intLit(site), strLit(nm), &ast.FuncLit{
		Type: &ast.FuncType{Params: &ast.FieldList{}},
		Body: &ast.BlockStmt{List: []ast.Stmt{&ast.ExprStmt{X: inner}}},
	})})
	return []ast.Stmt{&ast.BlockStmt{List: list}}
}

func basicKey(t types.Type) bool {
	b, ok := t.Underlying().(*types.Basic)
	if !ok {
		return false
	}
	return b.Info()&(types.IsInteger|types.IsString|types.IsBoolean|types.IsFloat) != 0
}

func (r *rw) rangeStmt(x *ast.RangeStmt) []ast.Stmt {
	t := r.info.TypeOf(x.X)
	if t == nil {
		return []ast.Stmt{x}
	}
	switch u := t.Underlying().(type) {
	case *types.Chan:
		site := r.newSite(x.Pos(), "chanrange")
		ok := r.name("ok")
		c := r.name("c")
		var recvLhs []ast.Expr
		tok := token.DEFINE
		if x.Key != nil {
			recvLhs = []ast.Expr{x.Key, ok}
			if x.Tok == token.ASSIGN {
				tok = token.ASSIGN
			}
		} else {
			recvLhs = []ast.Expr{ast.NewIdent("_"), ok}
		}
		var body []ast.Stmt
		if tok == token.ASSIGN {
			body = append(body, &ast.DeclStmt{Decl: &ast.GenDecl{Tok: token.VAR, Specs: []ast.Spec{&ast.ValueSpec{Names: []*ast.Ident{ok}, Type: ast.NewIdent("bool")}}}})
		}
		body = append(body,
			&ast.AssignStmt{Lhs: recvLhs, Tok: tok, Rhs: []ast.Expr{r.call("Recv2", intLit(site), c)}},
			&ast.IfStmt{Cond: &ast.UnaryExpr{Op: token.NOT, X: ok}, Body: &ast.BlockStmt{List: []ast.Stmt{&ast.BranchStmt{Tok: token.BREAK}}}},
		)
		body = append(body, x.Body.List...)
		return []ast.Stmt{&ast.BlockStmt{List: []ast.Stmt{
			define(c, x.X),
			&ast.ForStmt{Body: &ast.BlockStmt{List: body}},
		}}}
	case *types.Map:
		if !basicKey(u.Key()) {
			r.fatal = append(r.fatal, fmt.Sprintf("map range with non-basic key at %s", r.fset.Position(x.Pos())))
			return []ast.Stmt{x}
		}
		site := r.newSite(x.Pos(), "maprange")
		m := r.name("m")
		var key ast.Expr = r.name("k")
		keyTok := token.DEFINE
		if x.Key != nil {
			if id, ok := x.Key.(*ast.Ident); !ok || id.Name != "_" {
				key = x.Key
				keyTok = x.Tok
			}
		}
		okv := r.name("ok")
		var pre []ast.Stmt
		var val ast.Expr = ast.NewIdent("_")
		valTok := token.DEFINE
		if x.Value != nil {
			if id, ok := x.Value.(*ast.Ident); !ok || id.Name != "_" {
				val = x.Value
				valTok = x.Tok
			}
		}
		if valTok == token.ASSIGN {
			pre = append(pre, &ast.DeclStmt{Decl: &ast.GenDecl{Tok: token.VAR, Specs: []ast.Spec{&ast.ValueSpec{Names: []*ast.Ident{okv}, Type: ast.NewIdent("bool")}}}})
		}
		pre = append(pre,
			&ast.AssignStmt{Lhs: []ast.Expr{val, okv}, Tok: valTok, Rhs: []ast.Expr{&ast.IndexExpr{X: m, Index: key}}},
			&ast.IfStmt{Cond: &ast.UnaryExpr{Op: token.NOT, X: okv}, Body: &ast.BlockStmt{List: []ast.Stmt{&ast.BranchStmt{Tok: token.CONTINUE}}}},
		)
		x.Body.List = append(pre, x.Body.List...)
		loop := &ast.RangeStmt{Key: ast.NewIdent("_"), Value: key, Tok: keyTok, X: r.call("MapKeys", intLit(site), m), Body: x.Body}
		return []ast.Stmt{&ast.BlockStmt{List: []ast.Stmt{define(m, x.X), loop}}}
	}
	return []ast.Stmt{x}
}

// rewriteReceives replaces every receive expression `<-c` outside select comm clauses by
// simrt.Recv / simrt.Recv2.
func (r *rw) rewriteReceives(body *ast.BlockStmt) {
	protected := map[ast.Node]bool{}
	ast.Inspect(body, func(n ast.Node) bool {
		if cc, ok := n.(*ast.CommClause); ok && cc.Comm != nil {
			switch c := cc.Comm.(type) {
			case *ast.ExprStmt:
				protected[ast.Unparen(c.X)] = true
			case *ast.AssignStmt:
				if len(c.Rhs) == 1 {
					protected[ast.Unparen(c.Rhs[0])] = true
				}
			}
		}
		return true
	})
	astutil.Apply(body, func(c *astutil.Cursor) bool {
		u, ok := c.Node().(*ast.UnaryExpr)
		if !ok || u.Op != token.ARROW || protected[u] {
			return true
		}
		two := false
		switch p := c.Parent().(type) {
		case *ast.AssignStmt:
			two = len(p.Lhs) == 2 && len(p.Rhs) == 1
		case *ast.ValueSpec:
			two = len(p.Names) == 2 && len(p.Values) == 1
		case *ast.ParenExpr:
			// (<-c) in a two-value context is not handled; none in scope
		}
		site := r.newSite(u.Pos(), "recv")
		if two {
			c.Replace(r.call("Recv2", intLit(site), u.X))
		} else {
			c.Replace(r.call("Recv", intLit(site), u.X))
		}
		return true
	}, nil)
}

func addImport(f *ast.File) {
	for _, im := range f.Imports {
		if im.Path.Value == fmt.Sprintf("%q", simrtPath) && (im.Name == nil || im.Name.Name == "simrt") {
			return
		}
	}
	spec := &ast.ImportSpec{Name: ast.NewIdent("simrt"), Path: &ast.BasicLit{Kind: token.STRING, Value: fmt.Sprintf("%q", simrtPath)}}
	decl := &ast.GenDecl{Tok: token.IMPORT, Specs: []ast.Spec{spec}}
	f.Decls = append([]ast.Decl{decl}, f.Decls...)
	f.Imports = append(f.Imports, spec)
}

func recvName(fd *ast.FuncDecl) string {
	if fd.Recv == nil || len(fd.Recv.List) == 0 {
		return fd.Name.Name
	}
	t := fd.Recv.List[0].Type
	for {
		switch x := t.(type) {
		case *ast.StarExpr:
			t = x.X
			continue
		case *ast.IndexExpr:
			t = x.X
			continue
		case *ast.Ident:
			return x.Name + "." + fd.Name.Name
		}
		return fd.Name.Name
	}
}

func main() {
	dir := flag.String("dir", ".", "module dir")
	tags := flag.String("tags", "", "build tags")
	sitesOut := flag.String("sites", "", "write site table json")
	siteBase := flag.Int("sitebase", 1, "first site id")
	noInstrMark := flag.String("skipmark", "//simrt:noinstrument", "files containing this marker are skipped")
	flag.Parse()
	pats := flag.Args()
	if len(pats) == 0 {
		pats = []string{"./..."}
	}
	cfg := &packages.Config{
		Mode: packages.NeedName | packages.NeedFiles | packages.NeedCompiledGoFiles | packages.NeedSyntax | packages.NeedTypes | packages.NeedTypesInfo | packages.NeedImports | packages.NeedDeps,
		Dir:  *dir,
	}
	if *tags != "" {
		cfg.BuildFlags = []string{"-tags=" + *tags}
	}
	pkgs, err := packages.Load(cfg, pats...)
	if err != nil {
		fmt.Fprintln(os.Stderr, "load:", err)
		os.Exit(2)
	}
	var sites []site
	for i := 0; i < *siteBase; i++ {
		sites = append(sites, site{})
	}
	nfiles := 0
	var fatal []string
	for _, p := range pkgs {
		if len(p.Errors) > 0 {
			for _, e := range p.Errors {
				fmt.Fprintln(os.Stderr, "pkg error:", e)
			}
			os.Exit(2)
		}
		for i, f := range p.Syntax {
			fn := p.CompiledGoFiles[i]
			if strings.HasSuffix(fn, "_test.go") || !strings.HasPrefix(fn, *dir) {
				continue
			}
			src, _ := os.ReadFile(fn)
			if bytes.Contains(src, []byte(*noInstrMark)) {
				continue
			}
			r := &rw{fset: p.Fset, info: p.TypesInfo, sites: &sites, base: *dir + "/", pkg: p.Name}
			for _, d := range f.Decls {
				if fd, ok := d.(*ast.FuncDecl); ok && fd.Body != nil {
					if fd.Name.Name == "init" && fd.Recv == nil {
						continue
					}
					r.fn = recvName(fd)
					r.rewriteReceives(fd.Body)
					r.block(fd.Body)
				}
			}
			fatal = append(fatal, r.fatal...)
			if !r.used {
				continue
			}
			addImport(f)
			var buf bytes.Buffer
			if err := format.Node(&buf, p.Fset, f); err != nil {
				fmt.Fprintln(os.Stderr, "format:", fn, err)
				os.Exit(2)
			}
			if err := os.WriteFile(fn, buf.Bytes(), 0644); err != nil {
				fmt.Fprintln(os.Stderr, err)
				os.Exit(2)
			}
			nfiles++
		}
	}
	if len(fatal) > 0 {
		for _, w := range fatal {
			fmt.Fprintln(os.Stderr, "instr: UNSUPPORTED:", w)
		}
		os.Exit(2)
	}
	if *sitesOut != "" {
		b, _ := json.Marshal(sites[*siteBase:])
		os.WriteFile(*sitesOut, b, 0644)
	}
	fmt.Printf("instr: %d files rewritten, %d sites (next base %d)\n", nfiles, len(sites)-*siteBase, len(sites))
}
